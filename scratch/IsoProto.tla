---- MODULE IsoProto ----
(* feasibility prototype: strict ISO8583 reading evaluated by TLC on recorded loads() calls *)
EXTENDS Integers, Sequences, FiniteSets, TLC, TLCExt, Json, IOUtils, SequencesExt
Batch == JsonDeserialize(IOEnv.TRACE_FILE)
Cfg == Batch.cfg          \* Seq of 128 field records [type, len, py, proc]
Traces == Batch.traces
VARIABLES tid
D0 == 48  \* '0' in latin_1 (codec table would go here)
IsDigit(c) == c >= 48 /\ c <= 57
AllDigits(s) == \A i \in 1..Len(s) : IsDigit(s[i])
\* value of a plain decimal numeral of <= 3 digits
Num(s) == FoldLeft(LAMBDA acc, c : acc * 10 + (c - 48), 0, s)
Bits(bm) == TLCEval([i \in 1..128 |-> (bm[((i-1) \div 8) + 1] \div (2^(7 - ((i-1) % 8)))) % 2 = 1])
PrefixLen(f) == CASE f.type = "LLVAR" -> 2 [] f.type = "LLLVAR" -> 3 [] OTHER -> 0
StripZeros(ds) == LET nz == SelectSeq([i \in 1..Len(ds) |-> i], LAMBDA i : ds[i] # 48)
                  IN IF nz = <<>> THEN <<48>> ELSE SubSeq(ds, nz[1], Len(ds))
Key(kind, n, s) == [kind |-> kind, n |-> n, s |-> s]
Val(t, v) == [t |-> t, v |-> v]
\* PDS walk: returns <<ok, set of entries>>
PdsWalk(body) ==
  LET step(acc, i) ==
        IF ~acc.ok \/ acc.p > Len(body) THEN acc
        ELSE IF acc.p + 6 > Len(body) \/ ~AllDigits(SubSeq(body, acc.p + 4, acc.p + 6))
             THEN [acc EXCEPT !.ok = FALSE]
             ELSE LET n == Num(SubSeq(body, acc.p + 4, acc.p + 6))
                  IN IF acc.p + 6 + n > Len(body) THEN [acc EXCEPT !.ok = FALSE]
                     ELSE [ok |-> TRUE, p |-> acc.p + 7 + n,
                           es |-> acc.es \cup {<<Key("PDS", 0, SubSeq(body, acc.p, acc.p + 3)),
                                                 Val("s", SubSeq(body, acc.p + 7, acc.p + 6 + n))>>}]
  IN FoldLeft(step, [ok |-> TRUE, p |-> 1, es |-> {}], [i \in 1..((Len(body) \div 7) + 1) |-> i])
\* one field step of the strict reader. st = [ok, ptr, es]
ReadField(st, bit, data) ==
  LET f == Cfg[bit] pl == PrefixLen(f) IN
  IF ~st.ok THEN st
  ELSE IF f.type = "NONE" THEN [st EXCEPT !.ok = FALSE]
  ELSE IF st.ptr + pl > Len(data) + 1 /\ pl > 0 THEN [st EXCEPT !.ok = FALSE]
  ELSE LET pfx == SubSeq(data, st.ptr, st.ptr + pl - 1)
           okp == pl = 0 \/ (Len(pfx) = pl /\ AllDigits(pfx))
           n == IF pl = 0 THEN f.len ELSE IF okp THEN Num(pfx) ELSE 0
           body == SubSeq(data, st.ptr + pl, st.ptr + pl + n - 1)
       IN IF ~okp \/ st.ptr + pl + n - 1 > Len(data) THEN [st EXCEPT !.ok = FALSE]
          ELSE LET v == IF f.py \in {"int", "long"}
                        THEN IF AllDigits(body) /\ body # <<>> THEN Val("i", StripZeros(body)) ELSE Val("bad", <<>>)
                        ELSE Val("s", body)
                   extra == IF f.proc = "PDS" THEN PdsWalk(body) ELSE [ok |-> TRUE, es |-> {}]
               IN [ok |-> v.t # "bad" /\ extra.ok, ptr |-> st.ptr + pl + n,
                   es |-> st.es \cup {<<Key("DE", bit, <<>>), v>>} \cup extra.es]
Reading(b) ==
  IF Len(b) < 20 \/ ~AllDigits(SubSeq(b, 1, 4)) THEN [ok |-> FALSE, es |-> {}]
  ELSE LET bits == Bits(SubSeq(b, 5, 20))
           data == SubSeq(b, 21, Len(b))
           present == SelectSeq([i \in 1..126 |-> i + 1], LAMBDA i : bits[i])
           fin == FoldLeft(LAMBDA st, bit : ReadField(st, bit, data),
                           [ok |-> TRUE, ptr |-> 1, es |-> {<<Key("MTI", 0, <<>>), Val("s", SubSeq(b, 1, 4))>>}],
                           present)
       IN [ok |-> fin.ok /\ fin.ptr = Len(data) + 1, es |-> fin.es]
Observed(t) == {<<e.k, e.v>> : e \in Range(t.out.dict)}
Verdict(t) == LET r == Reading(t.bytes) IN
   IF t.out.kind = "ok" THEN IF ~r.ok THEN "accepted-a-must-reject"
                              ELSE IF Observed(t) = r.es THEN "ok" ELSE "wrong-reading"
   ELSE IF t.out.kind = "liberr" THEN IF r.ok THEN "rejected-a-must-accept" ELSE "ok"
   ELSE "bad-outcome-class"
Init == tid = 1 /\ TLCSet(1, 0)
Next == /\ tid <= Len(Traces)
        /\ LET v == Verdict(Traces[tid]) IN
             IF v = "ok" THEN TLCSet(1, TLCGet(1) + 1) ELSE PrintT(<<"REJECT", Traces[tid].tid, v>>)
        /\ tid' = tid + 1
AllAccepted == TLCGet(1) = Len(Traces)
====
