INIT Init
NEXT Next
POSTCONDITION AllAccepted
CHECK_DEADLOCK FALSE
