import io, os, tempfile, copy
from cardutil import iso8583, mciipm
from cardutil.config import config
cfg = copy.deepcopy(config['bit_config']); cfg['5']['field_python_type']='decimal'
m = iso8583.dumps({'MTI':'1144','DE3':'123456'}, iso_config=cfg)
bad = m[:4] + bytes([m[4] | 0x08]) + m[5:] + b'12345678901x'
# bit 5 set: order DE3 then DE5
try: print(iso8583.loads(bad, iso_config=cfg))
except BaseException as e: print('decimal:', type(e).__mro__[:3], e)
vars_ = [k for k,v in config['bit_config'].items() if v['field_type']!='FIXED']
print(len(vars_), sum(99 if config['bit_config'][k]['field_type']=='LLVAR' else 999 for k in vars_))
from cardutil.cli import paramconv
d = tempfile.mkdtemp(); p = os.path.join(d,'in.bin')
open(p,'wb').write(mciipm.vbs_list_to_bytes([b'abc'], blocked=True))
try: print('paramconv parsed default:', paramconv.cli_entry([p]))
except BaseException as e: print('paramconv cli_entry:', type(e).__name__, e)
import shutil; shutil.rmtree(d)
