import io, binascii
from cardutil import iso8583, mciipm, card
def t(name, f):
    try: print(name, '->', repr(f())[:300])
    except BaseException as e: print(name, 'EXC', type(e).__name__, str(e)[:200])
t('C08 neg accept', lambda: iso8583.loads(b'1144'+binascii.unhexlify('e0000000000000000000000000000000')+b'-2'+b'1234'))
t('C08 space len', lambda: iso8583.loads(b'1144'+binascii.unhexlify('c0000000000000000000000000000000')+b' 2'+b'12'))
t('C08 _ len', lambda: iso8583.loads(b'1144'+binascii.unhexlify('c0000000000000000000000000000000')+b'1_0'+b'1'*10) if False else iso8583.loads(b'1144'+binascii.unhexlify('00000000000000800000000000000000'.replace('8','0'))+b''))
# C04 brute: chunkings
def blockwrite(chunks):
    f=io.BytesIO(); b=mciipm.Block1014(f)
    for c in chunks: b.write(c)
    b.finalise(); return f.getvalue()
def check(chunks):
    data=b''.join(chunks); out=blockwrite(chunks)
    if len(out)%1014: return 'notmult %d'%len(out)
    pay=b''.join(out[i:i+1012] for i in range(0,len(out),1014))
    tr=all(out[i+1012:i+1014]==b'@@' for i in range(0,len(out),1014))
    nfill=len(pay)-len(data)
    return (pay[:len(data)]==data, tr, set(pay[len(data):])<= {0x40}, len(out)//1014, nfill)
d=bytes(range(256))*20
for ch in ([d[:1012]],[d[:1011]],[d[:1013]],[d[:2024]],[d[:2025]],[d[:500],d[500:1012]],[d[:500],d[500:1012],d[1012:1012]],[b''],[d[:3036]],[d[:1012],d[1012:2024]]):
    print([len(c) for c in ch], check(ch))
# one-shot
def oneshot(data):
    o=io.BytesIO(); mciipm.block_1014(io.BytesIO(data),o); return o.getvalue()
for n in (0,1,1011,1012,1013,2024): print('oneshot',n,len(oneshot(d[:n])), len(blockwrite([d[:n]])))
# C12
def pds(l1,l2):
    m={'MTI':'1144','PDS0001':'a'*l1,'PDS0002':'b'*l2}
    b=iso8583.dumps(dict(m)); r=iso8583.loads(b)
    return [(k,len(v)) for k,v in r.items() if k!='MTI']
for l1,l2 in ((485,493),(485,494),(485,495),(992,0),(0,0),(993,0)): t('C12 %d %d'%(l1,l2), lambda: pds(l1,l2))
t('C12 six carriers', lambda: len(iso8583.dumps({'MTI':'1144', **{'PDS%04d'%i:'x'*900 for i in range(1,7)}})))
t('C12 pds>999 value', lambda: iso8583.loads(iso8583.dumps({'MTI':'1144','PDS0001':'x'*1000})))
# C16
for n in (9,10,11,5,0): print('mask',n,card.mask('1234567890123456789'[:n]))
# C03 max len
t('C03 6000', lambda: len(mciipm.vbs_bytes_to_list(mciipm.vbs_list_to_bytes([b'x'*6000]))[0]))
t('C03 6001', lambda: len(mciipm.vbs_bytes_to_list(mciipm.vbs_list_to_bytes([b'x'*6001]))[0]))
t('C03 empty rec', lambda: mciipm.vbs_bytes_to_list(mciipm.vbs_list_to_bytes([b'a',b'',b'b'])))
# C09 truncated blocked
blk=mciipm.vbs_list_to_bytes([b'a'*1500,b'b'*20],blocked=True)
for cut in (0,3,4,500,1013,1014,1015,1600,2027):
    t('C09 cut %d'%cut, lambda: [len(x) for x in mciipm.vbs_bytes_to_list(blk[:cut],blocked=True)])
# instance isolation
r1=mciipm.VbsReader(io.BytesIO(mciipm.vbs_list_to_bytes([b'a',b'b']))); r2=mciipm.VbsReader(io.BytesIO(mciipm.vbs_list_to_bytes([b'c'])))
next(r1); print('iso', r1.record_number, r2.record_number, mciipm.VbsReader.record_number)
