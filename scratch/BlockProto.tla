---- MODULE BlockProto ----
(* feasibility prototype: abstract + implementation-shaped 1014 blocker, refinement checked by TLC *)
EXTENDS Integers, Sequences, TLC, SequencesExt
CONSTANTS P, T, MaxWrites, MaxLen
PAD == -1                       \* a cell that is fill; data cells are their 1-based index in the data stream
VARIABLES data,                 \* abstract: number of data cells written so far (cell i = i)
          rem, file,            \* impl-shaped: free payload cells in current block; cells emitted so far
          nw, final             \* bound on history; has Finalise happened
vars == <<data, rem, file, nw, final>>
Cells(lo, hi) == [i \in 1..(hi - lo + 1) |-> lo + i - 1]
Pads(n) == [i \in 1..n |-> PAD]
CeilDiv(a, b) == (a + b - 1) \div b
\* k blocks carrying d data cells then fill
Blocks(d, k) == LET pay == Cells(1, d) \o Pads(k * P - d)
                IN FoldLeft(LAMBDA acc, j : acc \o SubSeq(pay, (j-1)*P + 1, j*P) \o Pads(T), <<>>, [j \in 1..k |-> j])
Finals(d) == { Blocks(d, k) : k \in { CeilDiv(d, P), CeilDiv(d, P) + 1 } }
Init == data = 0 /\ rem = P /\ file = <<>> /\ nw = 0 /\ final = FALSE
\* implementation-shaped write: one action per branch of Block1014.write
WriteFits(n) == /\ n < rem
                /\ file' = file \o Cells(data + 1, data + n)
                /\ rem' = rem - n
WriteCompletes(n) ==
    /\ n >= rem
    /\ LET first == Cells(data + 1, data + rem) \o Pads(T)
           rest0 == n - rem
           full == IF rest0 = 0 THEN 0 ELSE (rest0 - 1) \div P     \* loop `while len > P`
           mid == FoldLeft(LAMBDA acc, j : acc \o Cells(data + rem + (j-1)*P + 1, data + rem + j*P) \o Pads(T), <<>>, [j \in 1..full |-> j])
           last == rest0 - full * P
       IN /\ file' = file \o first \o mid \o Cells(data + n - last + 1, data + n)
          /\ rem' = P - last
Write == /\ ~final /\ nw < MaxWrites
         /\ \E n \in 0..MaxLen : (WriteFits(n) \/ WriteCompletes(n)) /\ data' = data + n
         /\ nw' = nw + 1 /\ UNCHANGED final
Finalise == /\ ~final
            /\ file' = file \o Pads(rem + T)
            /\ rem' = P /\ final' = TRUE /\ UNCHANGED <<data, nw>>
Next == Write \/ Finalise
Spec == Init /\ [][Next]_vars
\* ---- properties ----
Payload(f) == LET nb == CeilDiv(Len(f), P + T) IN
   FoldLeft(LAMBDA acc, j : acc \o SubSeq(f, (j-1)*(P+T) + 1, IF (j-1)*(P+T) + P <= Len(f) THEN (j-1)*(P+T) + P ELSE Len(f)), <<>>, [j \in 1..nb |-> j])
NoLossInv == \* no cell dropped, duplicated or moved, at every step
   LET pay == Payload(file) IN SubSeq(pay, 1, data) = Cells(1, data)
FinalInv == final => file \in Finals(data)
RemInv == ~final => (rem \in 0..P /\ Len(file) = (data \div P) * (P + T) + (data % P)
                                     - (IF rem = 0 THEN T ELSE 0) + (IF rem = P /\ data > 0 /\ data % P = 0 THEN 0 ELSE 0))
====
