import itertools, datetime, re
WS = set('\t\n\x0b\x0c\r \x85\xa0') | {chr(c) for c in (0x1c,0x1d,0x1e,0x1f)} - {chr(c) for c in (0x1c,0x1d,0x1e,0x1f)}
def lenient(s):
    """model: returns int value or None"""
    t = s.strip(''.join(WS))
    if t and t[0] in '+-': sign = -1 if t[0]=='-' else 1; t = t[1:]
    else: sign = 1
    if not t: return None
    # digits with single underscores between digits
    if t[0]=='_' or t[-1]=='_' or '__' in t: return None
    d = t.replace('_','')
    if not d or any(c not in '0123456789' for c in d): return None
    return sign*int(d)
def real(s):
    try: return int(s)
    except ValueError: return None
chars=[chr(i) for i in range(256)]
bad=0
for n in (1,2):
    for tup in itertools.product(chars, repeat=n):
        s=''.join(tup)
        if lenient(s)!=real(s): bad+=1; print('DIFF', repr(s), lenient(s), real(s)) if bad<10 else None
sub=list('0159+-_ \t\x00\xa0\x85\xb2\xb9aA.')+[chr(0x1f),chr(0x1c)]
for tup in itertools.product(sub, repeat=3):
    s=''.join(tup)
    if lenient(s)!=real(s): bad+=1; print('DIFF', repr(s), lenient(s), real(s)) if bad<10 else None
for tup in itertools.product(list('05-_ +'), repeat=5):
    s=''.join(tup)
    if lenient(s)!=real(s): bad+=1; print('DIFF', repr(s), lenient(s), real(s)) if bad<10 else None
print('int() model diffs:', bad)
# strptime %y%m%d%H%M%S on 12-char strings: which non-plain-digit strings are accepted?
fmt="%y%m%d%H%M%S"
acc=[]
base="240229235959"
alts=' +-_0\xa0\t'
for i in range(12):
    for c in alts:
        s=base[:i]+c+base[i+1:]
        try: v=datetime.datetime.strptime(s,fmt); acc.append((i,repr(c),repr(s),str(v)))
        except ValueError: pass
for a in acc: print(a)
# plain-digit acceptance == calendar validity?
import random
random.seed(2); mism=0
def valid(s):
    y,m,d,H,M,S=[int(s[i:i+2]) for i in range(0,12,2)]
    Y=2000+y if y<69 else 1900+y
    if not(1<=m<=12 and H<24 and M<60 and S<=61): return False
    dim=[31,29 if (Y%4==0 and (Y%100!=0 or Y%400==0)) else 28,31,30,31,30,31,31,30,31,30,31][m-1]
    return 1<=d<=dim
res={}
for _ in range(200000):
    s=''.join(random.choice('0123456789') for _ in range(12))
    if random.random()<.5: s=s[:2]+'%02d%02d%02d%02d%02d'%(random.randrange(0,14),random.randrange(0,33),random.randrange(0,26),random.randrange(0,62),random.randrange(0,63))
    try: datetime.datetime.strptime(s,fmt); r=True
    except ValueError: r=False
    if r!=(valid(s) and int(s[10:12])<=59 or (valid(s) and False)):
        k=(r,valid(s),s[10:12]); res[k]=res.get(k,0)+1
print('strptime vs calendar mismatches by (accepted, model_valid, seconds):', res)
