CONSTANTS P = 4  T = 2  MaxWrites = 3  MaxLen = 13
SPECIFICATION Spec
INVARIANT NoLossInv
INVARIANT FinalInv
CHECK_DEADLOCK FALSE
