import io, binascii, signal, traceback
from cardutil import iso8583, mciipm, card, pinblock, key
from cardutil.config import config
def t(name, f):
    try:
        r = f()
        print(name, '->', repr(r)[:300])
    except BaseException as e:
        print(name, 'EXC', type(e).__name__, str(e)[:200])

# C02: over-length LLVAR
t('C02 llvar100', lambda: iso8583.dumps({'MTI':'1144','DE2':'1'*100})[20:30])
t('C02 llvar100 rt', lambda: iso8583.loads(iso8583.dumps({'MTI':'1144','DE2':'1'*100})))
t('C02 lllvar1000', lambda: iso8583.dumps({'MTI':'1144','DE72':'1'*1000})[20:30])
# fixed truncated silently
t('fixed too long', lambda: iso8583.dumps({'MTI':'1144','DE3':'1234567'}))
t('int too big', lambda: iso8583.dumps({'MTI':'1144','DE26':12345}))
t('neg int', lambda: iso8583.dumps({'MTI':'1144','DE4':-5}))
t('no MTI', lambda: iso8583.dumps({'DE3':'123456'}))
t('empty string DE', lambda: iso8583.dumps({'MTI':'1144','DE2':''}))
# mutation of input dict by dumps (PDS)
d={'MTI':'1144','PDS0001':'abc'}
t('pds dumps', lambda: iso8583.dumps(d)); print(d)
# C05 read() with no size
blk = mciipm.vbs_list_to_bytes([b'abc'*10], blocked=True)
u = mciipm.Unblock1014(io.BytesIO(blk))
t('C05 read()', lambda: len(u.read()))
u = mciipm.Unblock1014(io.BytesIO(blk))
t('C05 read(5) then read()', lambda: (u.read(5), len(u.read())))
# C07
bm = binascii.unhexlify('c0000000000000000000000000000000')
t('C07 nonhex', lambda: iso8583.loads(b'1144'+b'zz'*16+b'', hex_bitmap=True))
t('C08 neg len', lambda: iso8583.loads(b'1144'+binascii.unhexlify('e0000000000000000000000000000000')+b'-2'+b'123456'))
# PDS bad
msg = iso8583.dumps({'MTI':'1144','DE48':'0001abc'})
t('C07 pds ValueError', lambda: iso8583.loads(msg))
msg = iso8583.dumps({'MTI':'1144','DE55':b'\x9f'})
t('C07 icc struct', lambda: iso8583.loads(msg))
msg = iso8583.dumps({'MTI':'1144','DE55':b'\x9f\x26'})
t('C07 icc struct2', lambda: iso8583.loads(msg))
def hang():
    signal.alarm(3)
    try:
        m = iso8583.dumps({'MTI':'1144','DE48':'0001-07'+'x'*0})
        return iso8583.loads(m)
    finally:
        signal.alarm(0)
def h(*a): raise TimeoutError('hang')
signal.signal(signal.SIGALRM, h)
t('C07 pds neg len hang', hang)
# C10
def c10():
    good = iso8583.dumps({'MTI':'1144','DE2':'4444555566667777'})
    bad = b'11x4'+good[4:]
    data = mciipm.vbs_list_to_bytes([good, good, bad, good])
    r = mciipm.IpmReader(io.BytesIO(data))
    out=[]
    try:
        for x in r: out.append(x)
    except mciipm.MciIpmDataError as e:
        return len(out), e.record_number, e.binary_context_data[:10]
t('C10', c10)
# C11
def c11():
    f = io.BytesIO()
    with mciipm.VbsWriter(f) as w:
        w.write(b'hello'); w.close()
    return f.getvalue(), mciipm.vbs_bytes_to_list(f.getvalue())
t('C11', c11)
def c11b():
    f = io.BytesIO()
    with mciipm.VbsWriter(f, blocked=True) as w:
        w.write(b'hello'); w.close()
    v=f.getvalue()
    return len(v), v[:12], mciipm.vbs_bytes_to_list(v, blocked=True)
t('C11b', c11b)
# C13
pb = pinblock.Iso0PinBlock(pin='1234567890', card_number='1111222233334444')
t('C13 len10', lambda: (binascii.hexlify(pb.to_bytes()), pinblock.Iso0PinBlock.from_bytes(pb.to_bytes(), card_number='1111222233334444').pin))
pb4 = pinblock.Iso4PinBlock(pin='1234567890', random_value=1)
t('C13 iso4 len10', lambda: (binascii.hexlify(pb4.to_bytes()), pinblock.Iso4PinBlock.from_bytes(pb4.to_bytes()).pin))
pb4 = pinblock.Iso4PinBlock(pin='123456789012', random_value=1)
t('C13 iso4 len12', lambda: (binascii.hexlify(pb4.to_bytes()), ))
# C14
t('C14 pvv 5-digit pin', lambda: pinblock.calculate_pvv('12345','00'*16,1,'1111222233334444'))
t('C14 pvv 4-digit pin', lambda: pinblock.calculate_pvv('1234','00'*16,1,'1111222233334444'))
# C15
import subprocess,sys
print(subprocess.run([sys.executable,'-O','-c','from cardutil import card; print(card.validate_check_digit("79927398710"))'],capture_output=True,text=True))
# C17
def c17(n):
    recs=[{'MTI':'1144','DE2':'4444555566667777','DE72':'x'*900}]*n
    f=io.BytesIO()
    with mciipm.IpmWriter(f, blocked=True) as w: w.write_many(recs)
    v=f.getvalue()
    return len(v)//1014, mciipm.ipm_info(io.BytesIO(v))
for n in (1,2,3,4): t('C17 %d'%n, lambda: c17(n))
