import re, random, itertools
from cardutil.config import config
rx = config['bit_config']['43']['field_processor_config']
def decl(s):
    """least (a,b,c): name=s[:a] (a>=1), then spaces*, '\\'; address; suburb; then tail 10+3+3 with country \S{3}, end (allow one trailing \n per $)"""
    n=len(s)
    def seg_end(start):
        # yields (value_end, next_start) for lazy (.+?) *\\ : value s[start:e], e>start, no newline in value, then spaces, then backslash
        for e in range(start+1, n+1):
            if '\n' in s[start:e]: return
            j=e
            # ' *' is greedy but may backtrack: any number of spaces k>=0 then backslash
            # with value lazy, the first e that works wins; for given e spaces are forced: all consecutive spaces from e... but backtracking allows fewer spaces only if next char after fewer spaces is backslash, i.e. spaces then backslash: unique.
            while j<n and s[j]==' ': j+=1
            if j<n and s[j]=='\\': yield e, j+1
            # fewer spaces can't be followed by backslash (they're followed by space) -> no other option
    for a_end, p1 in seg_end(0):
        for b_end, p2 in seg_end(p1):
            for c_end, p3 in seg_end(p2):
                tail=s[p3:]
                t=tail[:-1] if tail.endswith('\n') else tail
                for cand in ([tail] if not tail.endswith('\n') else [t]):
                    if len(cand)==16 and '\n' not in cand and not any(ch.isspace() for ch in cand[13:16]):
                        return dict(DE43_NAME=s[:a_end], DE43_ADDRESS=s[p1:b_end], DE43_SUBURB=s[p2:c_end],
                                    DE43_POSTCODE=cand[:10], DE43_STATE=cand[10:13], DE43_COUNTRY=cand[13:16])
    return None
def real(s):
    m=re.match(rx,s); return m.groupdict() if m else None
random.seed(5); diffs=0; matched=0
A='AB \\\\\\9\n'
for it in range(300000):
    if it%2:
        parts=[''.join(random.choice('AB  \\') for _ in range(random.randrange(0,6))) for _ in range(3)]
        s='\\'.join(parts)+'\\'+''.join(random.choice('AB 9') for _ in range(random.choice([15,16,16,16,17])))
    else:
        s=''.join(random.choice(A) for _ in range(random.randrange(0,40)))
    r,d=real(s),decl(s)
    if r: matched+=1
    if r!=d:
        diffs+=1
        if diffs<6: print('DIFF',repr(s),r,d)
print('matched',matched,'diffs',diffs)
