---- MODULE BlockInt ----
EXTENDS Integers
P == 1012
T == 2
VARIABLES
  \* @type: Int;
  data,
  \* @type: Int;
  rem,
  \* @type: Int;
  flen
Init == data = 0 /\ rem = P /\ flen = 0
Write == \E n \in Nat :
    /\ data' = data + n
    /\ IF n < rem
       THEN rem' = rem - n /\ flen' = flen + n
       ELSE LET rest0 == n - rem
                full == IF rest0 = 0 THEN 0 ELSE (rest0 - 1) \div P
                last == rest0 - full * P
            IN rem' = P - last /\ flen' = flen + rem + T + full * (P + T) + last
Next == Write
IndInv == /\ data >= 0 /\ rem >= 0 /\ rem <= P /\ flen >= 0
          /\ \/ (rem >= 1 /\ rem < P /\ data % P = P - rem /\ flen = (data \div P) * (P + T) + (P - rem))
             \/ (rem = 0 /\ data > 0 /\ data % P = 0 /\ flen = (data \div P) * (P + T) - T)
             \/ (rem = P /\ data % P = 0 /\ flen = (data \div P) * (P + T))
\* after finalise the file is a whole number of blocks with at most one all-fill block
FinalLen == (flen + rem + T) % (P + T) = 0 /\ (flen + rem + T) \div (P + T) <= (data + P - 1) \div P + 1
                                              /\ (flen + rem + T) \div (P + T) >= (data + P - 1) \div P
IndInit == data \in Int /\ rem \in Int /\ flen \in Int /\ IndInv
Inv == IndInv /\ FinalLen
====
