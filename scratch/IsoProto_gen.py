import json, random, sys
from cardutil import iso8583
from cardutil.config import config
bc = config['bit_config']
random.seed(int(sys.argv[1]) if len(sys.argv)>1 else 0)
cfg=[]
for bit in range(1,129):
    f=bc.get(str(bit))
    if not f or bit==1: cfg.append({"type":"NONE","len":0,"py":"string","proc":"none"})
    else: cfg.append({"type":f["field_type"],"len":f["field_length"],"py":f.get("field_python_type","string"),"proc":f.get("field_processor","none")})
# prototype skips ICC/DE43/datetime elements
skip={'12','43','55'}
bits=[b for b in bc if b not in skip and b!='1']
A='ABCDEFGHIJKLMNOPQRSTUVWXYZ abcdefghijklmnopqrstuvwxyz0123456789-_'
def key(k):
    if k=='MTI': return {"kind":"MTI","n":0,"s":[]}
    if k.startswith('PDS'): return {"kind":"PDS","n":0,"s":[ord(c) for c in k[3:]]}
    return {"kind":"DE","n":int(k[2:]),"s":[]}
def val(v):
    if isinstance(v,int): return {"t":"i","v":[ord(c) for c in str(v)]}
    return {"t":"s","v":[ord(c) for c in v]}
def msg():
    m={'MTI':'%04d'%random.randrange(10000)}
    for b in random.sample(bits, random.randrange(1,12)):
        f=bc[b]
        if f.get('field_processor')=='PDS': continue
        if f.get('field_python_type') in ('int','long'): m['DE'+b]=random.randrange(10**f['field_length'])
        elif f['field_type']=='FIXED': m['DE'+b]=''.join(random.choice(A) for _ in range(f['field_length']))
        else: m['DE'+b]=''.join(random.choice(A) for _ in range(random.randrange(1, 99 if f['field_type']=='LLVAR' else 400)))
    for _ in range(random.randrange(0,6)): m['PDS%04d'%random.randrange(10000)]=''.join(random.choice(A) for _ in range(random.randrange(0,300)))
    return m
traces=[]
n=int(sys.argv[2]) if len(sys.argv)>2 else 2000
for i in range(n):
    b=iso8583.dumps(msg())
    if i%3==1 and len(b)>24:   # mutate one data byte
        j=random.randrange(20,len(b)); b=b[:j]+bytes([random.choice(b'-0 9_A')])+b[j+1:]
    if i%7==3: b=b[:random.randrange(len(b))]
    try:
        d=iso8583.loads(b); out={"kind":"ok","dict":[{"k":key(k),"v":val(v)} for k,v in d.items()]}
    except iso8583.Iso8583DataError: out={"kind":"liberr","dict":[]}
    except Exception as e: out={"kind":"other:"+type(e).__name__,"dict":[]}
    traces.append({"tid":i,"bytes":list(b),"out":out})
json.dump({"cfg":cfg,"traces":traces},open('batch.json','w'))
print(len(traces), sum(len(t['bytes']) for t in traces))
