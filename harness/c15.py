"""C15 - Luhn check digits are correct and validation really rejects bad numbers (also under python -O).

1. TLC exhaustive: MC_Card (Mode luhn): for every digit string up to MaxLen digits AppendValid and Detects (single-digit
   changes, adjacent transpositions other than 0<->9) hold for the specified CheckDigit/Valid.
2. spec -> code: every (digits, check digit) pair printed by that run is replayed on calculate_check_digit,
   add_check_digit and validate_check_digit - in this process and in a `python -O` child.
3. code -> spec: recorded calls on longer numbers (to 40 digits, with separators), every substitution / transposition
   of sampled valid numbers, both interpreter modes, judged by Trace_Card.
"""
import json
import os
import subprocess
import sys

from . import core, drv
from .c04 import write_cfg

sys.path.insert(0, core.REPO)
from cardutil import card  # noqa: E402


def validate_modes(nums):
    """outcome kinds of validate_check_digit for each number: in-process and in a python -O child"""
    normal = []
    for n in nums:
        try:
            card.validate_check_digit(n)
            normal.append('ok')
        except AssertionError:
            normal.append('assert')
        except BaseException as ex:  # noqa
            normal.append('exc:' + type(ex).__name__)
    env = dict(os.environ, CARDUTIL_REPO=core.REPO)
    p = subprocess.run([sys.executable, '-O', '-B', os.path.join(core.VERIF, 'harness', 'luhn_child.py')],
                       input=json.dumps(nums), capture_output=True, text=True, env=env, timeout=600)
    if p.returncode != 0:
        raise core.MachineryError('python -O child failed: ' + p.stderr[-500:])
    res = json.loads(p.stdout)
    if not res['optimised']:
        raise core.MachineryError('child interpreter did not run in optimised mode')
    return normal, res['out']


def validate_oo(nums):
    """the same numbers in a `python -OO` child (assert statements AND docstrings removed)"""
    env = dict(os.environ, CARDUTIL_REPO=core.REPO)
    p = subprocess.run([sys.executable, '-OO', '-B', os.path.join(core.VERIF, 'harness', 'luhn_child.py')],
                       input=json.dumps(nums), capture_output=True, text=True, env=env, timeout=600)
    if p.returncode != 0:
        raise core.MachineryError('python -OO child failed: ' + p.stderr[-500:])
    res = json.loads(p.stdout)
    if not res['optimised']:
        raise core.MachineryError('child interpreter did not run in optimised mode')
    return res['out']


def stream_replay(rep, wd, tier):
    maxlen = 6 if tier == 'thorough' else 4
    cfg = write_cfg(os.path.join(wd, 'MC_Card.cfg'),
                    'CONSTANTS MaxLen = %d MaskMax = 10 Mode = "luhn"\nSPECIFICATION Spec\nINVARIANT AppendValid\n'
                    'INVARIANT Detects\nCHECK_DEADLOCK FALSE\n' % maxlen)
    cases = []
    res = core.run_tlc('MC_Card', cfg, wd, workers=core.NCPU, timeout=3000,
                       line_cb=lambda line: cases.append(line))
    core.require_ok(res, 'MC_Card luhn')
    rep.add_tlc('MC_Card luhn exhaustive MaxLen=%d' % maxlen, res)
    # 16 workers interleave output lines; parse tolerant
    import re
    pairs = []
    for line in cases:
        m = re.match(r'<<"T", <<([0-9, ]*)>>, (\d)>>', line.strip())
        if m:
            s = ''.join(chr(int(x)) for x in m.group(1).split(',') if x.strip())
            pairs.append((s, int(m.group(2))))
    expected = sum(10 ** k for k in range(0, maxlen + 1))
    if len(pairs) != expected:
        raise core.MachineryError('MC_Card printed %d digit strings, expected %d' % (len(pairs), expected))
    good, badn = [], []
    for s, cd in pairs:
        try:
            got = card.calculate_check_digit(s)
        except BaseException as ex:  # noqa
            got = 'exc:' + type(ex).__name__
        if got != str(cd):
            rep.violation('luhn-check-digit', {'number': s, 'required': str(cd), 'observed': got})
        try:
            got2 = card.add_check_digit(s)
        except BaseException as ex:  # noqa
            got2 = 'exc:' + type(ex).__name__
        if got2 != s + str(cd):
            rep.violation('luhn-add-check-digit', {'number': s, 'required': s + str(cd), 'observed': got2})
        good.append(s + str(cd))
        badn.append(s + str((cd + 1 + len(s)) % 10 if (cd + 1 + len(s)) % 10 != cd else (cd + 1) % 10))
    for nums, want in ((good, 'ok'), (badn, 'assert')):
        normal, opt = validate_modes(nums)
        for mode, outs in (('normal', normal), ('optimised', opt)):
            n = 0
            for num, o in zip(nums, outs):
                if o != want:
                    n += 1
                    if n <= 3:
                        rep.violation('luhn-validate-%s-%s' % ('rejected-valid' if want == 'ok' else 'accepted-invalid', mode),
                                      {'number': num, 'mode': mode, 'required': want, 'observed': o})
            if n > 3:
                rep.violations.append(('luhn-validate-%s-%s' % ('rejected-valid' if want == 'ok' else 'accepted-invalid', mode),
                                       {'more': n - 3})) if ('luhn-validate-%s-%s' % ('rejected-valid' if want == 'ok' else 'accepted-invalid', mode)) not in rep.known else None
    rep.replayed += len(pairs)
    rep.sample({'replayed': 'digit string %r -> check digit %d (calculate/add/validate, normal and -O)' % pairs[len(pairs) // 2]})


def tev(op, s, c='', out='', kind='ok', mode='normal'):
    return {'op': op, 's': [ord(x) for x in s], 'c': [ord(x) for x in c], 'out': [ord(x) for x in out], 'kind': kind, 'mode': mode}


class ShownOtherwise(str):
    """a digit string whose str() / format() is something else (an enum member, a wrapper that prints masked); its
    characters are what the functions are asked about"""

    def __str__(self):
        return 'PAN(' + self[:2] + '...)'

    def __format__(self, spec):
        return str(self)

    def __repr__(self):
        return 'ShownOtherwise(%s)' % str.__repr__(self)


def call(fn, *a):
    import zlib
    h = zlib.crc32(repr((getattr(fn, '__name__', ''), a)).encode())
    if h % 5 == 2 and a and type(a[0]) is str:
        a = (ShownOtherwise(a[0]),) + a[1:]
    try:
        with drv.Env('card', getattr(fn, '__name__', ''), a):
            out = fn(*a)
        return 'ok', (str.__str__(out) if isinstance(out, str) and type(out) is not str else out)
    except AssertionError:
        return 'assert', ''
    except BaseException as ex:  # noqa
        return 'exc', type(ex).__name__


def _drive_threads(args):
    """one harness thread: check digits, appending and validating of its own numbers (lengths differ per thread)"""
    seed, k = args
    out = []
    for i in range(150):
        r = drv.rng(seed, 'c15thr', k, i)
        n = (15, 18, 31, 12, 16, 19, 25, 9)[k % 8]
        digits = ''.join(r.choice('0123456789') for _ in range(n))
        ev = []
        kind, o = call(card.calculate_check_digit, digits)
        ev.append(tev('check', digits, out=o if kind == 'ok' else '', kind=kind))
        kind, o = call(card.add_check_digit, digits)
        ev.append(tev('add', digits, out=o if kind == 'ok' and isinstance(o, str) else '', kind=kind))
        if kind == 'ok' and isinstance(o, str) and len(o) == n + 1:
            valid = o
            j = r.randrange(len(valid))
            wrong = valid[:j] + str((int(valid[j]) + r.randrange(1, 10)) % 10) + valid[j + 1:] if valid[j].isdigit() else valid
            for v in (valid, wrong):
                try:
                    card.validate_check_digit(v)
                    kd = 'ok'
                except AssertionError:
                    kd = 'assert'
                except BaseException:  # noqa
                    kd = 'exc'
                ev.append(tev('validate', v, kind=kd, mode='normal'))
        out.append({'tid': 0, 'events': ev, '_variants': [], '_desc': 'number %s' % digits})
    return out


def trace_validation(rep, wd, tier, seed):
    n = 1500 if tier == 'thorough' else 150
    traces = []
    allnums = []
    # numbers whose digit sum is extreme (runs of one digit, nearly all nines / eights / zeros at 20..40 digits): the
    # Luhn total of a 40-digit number reaches 360, of a random one about 180
    extremes = [d * k for d in '0589' for k in (1, 19, 20, 28, 29, 30, 33, 39, 40)]
    for i in range(36):
        r = drv.rng(seed, 'c15x', i)
        k = r.choice((24, 28, 29, 31, 36, 40))
        base = r.choice('99998')
        extremes.append(''.join(base if r.random() < 0.9 else r.choice('0123456789') for _ in range(k)))
    for tid in range(n + len(extremes)):
        r = drv.rng(seed, 'c15', tid)
        k = r.choice((1, 2, 7, 12, 15, 16, 18, 19, 25, 40))
        digits = ''.join(r.choice('0123456789') for _ in range(k))
        if tid >= n:
            digits = extremes[tid - n]
            k = len(digits)
        shown = digits
        if tid % 3 == 0:      # separators are dropped by the computation
            shown = ' '.join(digits[i:i + 4] for i in range(0, k, 4)) if tid % 2 else '-'.join(digits[i:i + 4] for i in range(0, k, 4))
        ev = []
        if tid % 4 == 2:
            weirds = (digits[:2] + '\u0663' + digits[2:], '\u2460\u2461\u2462' + digits[:3], '12\u00b2\u00b3', '4111 1111\u00b9 1111 111')
            fn = (card.calculate_check_digit, card.add_check_digit, card.validate_check_digit)[(tid // 4) % 3]
            for weird in weirds[(tid // 12) % 3:]:
                call(fn, weird)       # outcome not judged (not a digit string); the very next calls are
        kind, out = call(card.calculate_check_digit, shown)
        ev.append(tev('check', shown, out=out if kind == 'ok' else '', kind=kind))
        kind, out = call(card.add_check_digit, digits)
        ev.append(tev('add', digits, out=out if kind == 'ok' and isinstance(out, str) else '', kind=kind))
        valid = digits + card.calculate_check_digit(digits) if kind == 'ok' else digits + '0'
        variants = [valid]
        for i in range(len(valid)):
            for d in (r.sample('0123456789', 3) if tier == 'quick' else '0123456789'):
                if d != valid[i]:
                    variants.append(valid[:i] + d + valid[i + 1:])
        for i in range(len(valid) - 1):
            if valid[i] != valid[i + 1]:
                variants.append(valid[:i] + valid[i + 1] + valid[i] + valid[i + 2:])
        if tid % 3 == 0 and kind == 'ok':
            # the number as it is written on a card (separators; odd and even numbers of them), valid and with a wrong digit
            for sep, step in ((' ', 4), ('-', 4), (' ', 6), (' ', len(valid) // 2 or 1)):
                body = sep.join(valid[:-1][i:i + step] for i in range(0, len(valid) - 1, step))
                variants.append(body + valid[-1])
                variants.append(body + str((int(valid[-1]) + 3) % 10))
        traces.append({'tid': tid, 'events': ev, '_variants': variants, '_desc': 'number %s' % shown})
        allnums += variants
    # issuer-prefix sweep: every four-digit prefix at the usual card lengths (15, 16 and one more of 12..19; thorough:
    # all of 12..19) - one valid number and one with a single wrong digit behind the prefix.  Validation may not
    # depend on who issued the card.
    lens_all = (12, 13, 14, 15, 16, 17, 18, 19)
    for pfx in range(10000):
        r = drv.rng(seed, 'c15pfx', pfx)
        lens = lens_all if tier == 'thorough' else (15, 16, lens_all[(pfx + seed) % 8])
        variants = []
        for ln in sorted(set(lens)):
            body = '%04d' % pfx + ''.join(r.choice('0123456789') for _ in range(ln - 5))
            valid = body + card.calculate_check_digit(body)
            i = r.randrange(4, ln)
            wrong = valid[:i] + str((int(valid[i]) + r.randrange(1, 10)) % 10) + valid[i + 1:]
            variants += [valid, wrong]
        traces.append({'tid': len(traces), 'events': [], '_variants': variants, '_desc': 'issuer prefix %04d' % pfx})
        allnums += variants
    normal, opt = validate_modes(allnums)
    from . import isocheck
    thr = [t for o in isocheck.mark_threaded(isocheck.threaded('harness.c15', '_drive_threads', [(seed, k) for k in range(8)], procs=2)) for t in o]
    # the first part of the corpus also in a -OO interpreter
    noo = sum(len(t['_variants']) for t in traces[:n])
    oo = validate_oo(allnums[:noo])
    p = 0
    for t in traces:
        for v in t['_variants']:
            for mode, outs in (('normal', normal), ('optimised', opt)) + ((('optimised-OO', oo),) if p < noo else ()):
                o = outs[p]
                t['events'].append(tev('validate', v, kind=o if o in ('ok', 'assert') else 'exc', mode=mode))
            p += 1
    rep.extra['validate_calls'] = 2 * len(allnums)
    for t in thr:
        t['tid'] = len(traces)
        traces.append(t)
    batches = core.split(traces, core.NCPU)
    from .c04 import validate_batches

    def describe(t, r):
        e = t['events'][r[2] - 1]
        return {'case': t['_desc'], 'op': e['op'], 'argument': ''.join(chr(c) for c in e['s']), 'mode': e['mode'],
                'observed_kind': e['kind'], 'observed': ''.join(chr(c) for c in e['out']), 'clause': r[3]}
    validate_batches(rep, wd, 'Trace_Card', 'Trace_Card.cfg', batches, 'card', describe)
    rep.sample({'trace': traces[0]['_desc'], 'events': len(traces[0]['events'])})


def run(rep, wd, tier, seed):
    rep.assumptions += ['TLC 1.8 evaluates the TLA+ text correctly',
                        'optimised mode = the same interpreter started with -O (assert statements removed)']
    stream_replay(rep, wd, tier)
    trace_validation(rep, wd, tier, seed)
    rep.exhaustive = True
    rep.notes.append('exhaustive over digit strings up to the bound; longer numbers sampled')


def replay(rep, wd, payload):
    p = payload['payload']
    if 'number' in p and 'mode' in p:
        normal, opt = validate_modes([p['number']])
        got = (normal if p['mode'] == 'normal' else opt)[0]
        print('observed now:', got)
        if got != p['required']:
            rep.violation(payload['key'], p)
    else:
        import sys
        core.generic_replay(sys.modules[__name__], rep, wd, payload)
