"""./check <Cnn> [--tier quick|thorough] [--replay path]"""
import argparse
import importlib
import json
import os
import sys
import traceback

from . import core


def _threaded_hang():
    from . import isocheck
    return isocheck.ThreadedHang


def main():
    ap = argparse.ArgumentParser()
    ap.add_argument('pid')
    ap.add_argument('--tier', default=os.environ.get('VERIF_TIER', 'quick'), choices=['quick', 'thorough'])
    ap.add_argument('--replay')
    a = ap.parse_args()
    try:
        seed = int(os.environ.get('VERIF_SEED', '0') or 0)
    except ValueError:
        seed = 0
    pid = a.pid.upper()
    try:
        mod = importlib.import_module('harness.%s' % pid.lower())
    except ImportError:
        traceback.print_exc()
        print('no check for %s' % pid)
        return 2
    rep = core.Report(pid, a.tier, seed)
    wd = core.workdir(pid)
    try:
        if a.replay:
            payload = json.load(open(a.replay))
            mod.replay(rep, wd, payload)
        else:
            mod.run(rep, wd, a.tier, seed)
        return rep.finish(write_evidence=not a.replay)
    except _threaded_hang() as ex:
        # the library did not come back while several threads were driving it: in no outcome set of any property
        rep.violation('threads:library-call-did-not-return', {'detail': str(ex)})
        return rep.finish(write_evidence=not a.replay)
    except core.MachineryError as ex:
        print('MACHINERY-FAILURE %s: %s' % (pid, ex))
        return 2
    except Exception:
        traceback.print_exc()
        print('MACHINERY-FAILURE %s: unexpected exception in harness' % pid)
        return 2
    finally:
        core.cleanup(wd)


if __name__ == '__main__':
    sys.exit(main())
