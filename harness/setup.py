"""setup_cmd: offline sanity of the framework - every specification module parses (tla-sany)."""
import glob
import os
import subprocess
import sys
from concurrent.futures import ThreadPoolExecutor

from . import core


def parse(path):
    p = subprocess.run(['java', '-cp', core.JAR, 'tla2sany.SANY', os.path.basename(path)], cwd=core.SPEC,
                       stdout=subprocess.PIPE, stderr=subprocess.STDOUT, text=True)
    bad = p.returncode != 0 or 'Fatal' in p.stdout or '*** Errors' in p.stdout or 'Abort' in p.stdout
    return path, bad, p.stdout


def main():
    mods = sorted(glob.glob(os.path.join(core.SPEC, '*.tla')))
    with ThreadPoolExecutor(8) as ex:
        res = list(ex.map(parse, mods))
    rc = 0
    for path, bad, out in res:
        if bad:
            rc = 1
            print('PARSE FAILURE', path)
            print(out[-1500:])
    print('setup: %d modules parsed, %s' % (len(mods), 'FAILED' if rc else 'ok'))
    return rc


if __name__ == '__main__':
    sys.exit(main())
