"""C02 - ISO8583 wire format conforms to the documented layout, in both directions; unrepresentable values refused.

1. TLC exhaustive (MC_Iso, shared with C01): the specification's Layout and Reading agree and over-length is reported.
2. code -> spec (Trace_Iso), byte-for-byte and key-for-key against the TLA+ reference written from the documentation:
   - every single element and every pair of elements of a generated 127-element configuration (quick: all singles,
     sampled pairs; thorough: all 8001 pairs), one value per element, x {binary, hex} x codecs;
   - the over-length family: lengths 99,100,101 / 999,1000,1001 on every variable element (must be refused);
   - short fixed-width text and numbers (padding), derived entries (PDS, ICC, DE43) on decode.
"""
import itertools

from . import core, drv, isoc, isocheck
from .isoc import PKG

OWN = ('layout-', 'dumps-emitted', 'dumps-refused', 'reading-differs', 'rejected-a-must-accept', 'accepted-a-must-reject')


def owner(clause):
    return clause.startswith(OWN)


def one_value(bc, b, alpha, r):
    return isoc.value_for(r, bc[b], alpha)


def _drive(args):
    isoc.ALLOW_UNENCODABLE = True
    seed, cfgspec, codec, kind, lo, hi = args
    bc = isocheck.get_config(cfgspec)
    alpha = isoc.alphabet(codec)
    bits = sorted((b for b in bc if b != '1'), key=int)
    out = []
    if kind == 'singles':
        for i, b in enumerate(bits):
            r = drv.rng(seed, 'c02s', b)
            m = {'MTI': '1644', 'DE' + b: one_value(bc, b, alpha, r)}
            if bc[b].get('field_processor') == 'PDS':
                m = {'MTI': '1644', 'PDS0105': 'X' * 20}
            out.append(isocheck.roundtrip_trace(i, m, bc, codec, bool(i & 1), 'single element DE%s' % b))
    elif kind == 'pairs':
        pairs = list(itertools.combinations(bits, 2))
        if hi is not None:
            r0 = drv.rng(seed, 'c02-pairsample')
            pairs = r0.sample(pairs, min(hi, len(pairs)))
        for i, (a, b) in enumerate(pairs):
            if i % core.NCPU != lo:
                continue
            r = drv.rng(seed, 'c02p', a, b)
            m = {'MTI': '1644'}
            for x in (a, b):
                if bc[x].get('field_processor') == 'PDS':
                    m['PDS%04d' % (int(x) * 7)] = 'P' * int(x)
                else:
                    m['DE' + x] = one_value(bc, x, alpha, r)
            out.append(isocheck.roundtrip_trace(i, m, bc, codec, bool(i & 2), 'pair DE%s DE%s' % (a, b)))
    elif kind == 'over':
        tid = 0
        for b in bits:
            f = bc[b]
            if f['field_type'] == 'FIXED':
                continue
            cap = 99 if f['field_type'] == 'LLVAR' else 999
            py = f.get('field_python_type') or 'string'
            for n in (cap - 1, cap, cap + 1, cap + 2, cap * 2):
                r = drv.rng(seed, 'over', b, n)
                if f.get('field_processor') == 'ICC':
                    v = bytes(r.randrange(1, 256) for _ in range(n))
                    v = b'\x95' * 0 + v
                elif f.get('field_processor') == 'PDS':
                    # the carrier is produced by the library from PDS entries: ONE entry of 992 (fits) .. 1993
                    # characters; from 993 on its carrier would need more than three length digits
                    if f['field_type'] != 'LLLVAR' or b != min((x for x in bits if bc[x].get('field_processor') == 'PDS'), key=int):
                        continue
                    for vn in (n - 7, n - 8 + 2, n - 7 + 7):
                        t = isocheck.roundtrip_trace(tid, {'MTI': '1144', 'PDS0105': isoc.rtext(r, vn, alpha, 'safe')}, bc, codec, bool(tid & 1),
                                                     'one PDS entry of %d characters (carrier DE%s would hold %d)' % (vn, b, vn + 7))
                        t['_key'] = ''
                        out.append(t)
                        tid += 1
                    continue
                elif py in ('int', 'long'):
                    v = int('9' * n)
                elif py != 'string':
                    continue
                else:
                    v = isoc.rtext(r, n, alpha, 'safe')
                t = isocheck.roundtrip_trace(tid, {'MTI': '1144', 'DE' + b: v}, bc, codec, bool(tid & 1),
                                             'DE%s (%s) with %d characters' % (b, f['field_type'], n))
                t['_key'] = ''
                out.append(t)
                tid += 1
    elif kind == 'padding':
        tid = 0
        for b in bits:
            f = bc[b]
            py = f.get('field_python_type') or 'string'
            if f['field_type'] != 'FIXED' or f.get('field_processor'):
                continue
            w = f['field_length']
            for n in sorted({1, w // 2, w - 1, w} - {0}):
                r = drv.rng(seed, 'pad', b, n)
                if py in ('int', 'long'):
                    v = int('7' * n)
                elif py == 'string':
                    v = isoc.rtext(r, n, alpha, 'safe').strip() or 'x'
                else:
                    continue
                out.append(isocheck.roundtrip_trace(tid, {'MTI': '1144', 'DE' + b: v}, bc, codec, bool(tid & 1),
                                                    'fixed DE%s width %d given %d characters' % (b, w, n)))
                tid += 1
    elif kind == 'derived':
        for tid in range(lo, hi):
            r = drv.rng(seed, 'derived', tid)
            m = {'MTI': '1240'}
            for b in bits:
                p = bc[b].get('field_processor')
                if p in ('ICC', 'DE43', 'PAN', 'PAN-PREFIX') and r.random() < 0.7:
                    m['DE' + b] = isoc.value_for(r, bc[b], alpha)
                elif p is None and r.random() < 0.15:
                    m['DE' + b] = isoc.value_for(r, bc[b], alpha)
            if r.random() < 0.8:
                m.update(isoc.rpds(r, alpha, 5))
            out.append(isocheck.roundtrip_trace(tid, m, bc, codec, bool(tid & 1), 'derived entries'))
    return out


def run(rep, wd, tier, seed):
    from . import c01
    rep.assumptions += ['TLC 1.8 evaluates the TLA+ text correctly',
                        'codec tables exported from the interpreter (codecs are trusted base)']
    c01.model_check(rep, wd, 'quick')
    gen = ('gen', 7000 + seed)
    jobs = []
    codecs = isocheck.CODECS_QUICK if tier == 'thorough' else ('latin_1', 'cp500')
    for codec in codecs:
        jobs.append((seed, gen, codec, 'singles', 0, 0))
        for k in range(core.NCPU):
            jobs.append((seed, gen, codec, 'pairs', k, None if tier == 'thorough' else 1600))
        jobs.append((seed, ('pkgshuf', 0), codec, 'derived', 0, 60))
        jobs.append((seed, ('pkgshuf', 1), codec, 'derived', 60, 120))
        jobs.append((seed, ('pkgshuf', 2), codec, 'derived', 120, 180))
        jobs.append((seed, ('pkgstr',), codec, 'derived', 300, 380))
        for cfgspec in (('pkg',), gen):
            jobs.append((seed, cfgspec, codec, 'over', 0, 0))
            jobs.append((seed, cfgspec, codec, 'padding', 0, 0))
            jobs.append((seed, cfgspec, codec, 'derived', 0, 600 if tier == 'thorough' else 80))
    outs = isocheck._pool(_drive, jobs)
    tjobs = [(seed, cfgspec, codec, 'derived', 1000 + 100 * i, 1000 + 100 * i + (200 if tier == 'thorough' else 90))
             for i, (cfgspec, codec) in enumerate([(('pkg',), 'latin_1'), (gen, 'cp500'), (('pkgshuf', 1), 'latin_1'), (('pkg',), 'cp500'),
                                                   (gen, 'latin_1'), (('pkgshuf', 2), 'cp500'), (('pkg',), 'latin_1'), (gen, 'cp500')])]
    jobs = jobs + tjobs
    outs = outs + isocheck.mark_threaded(isocheck.threaded('harness.c02', '_drive', tjobs))
    rep.extra['histories_driven_from_four_threads_at_once'] = sum(len(o) for o in outs[-len(tjobs):])
    groups = {}
    for j, o in zip(jobs, outs):
        # renumber trace ids per (config, codec) group
        g = groups.setdefault((j[1], j[2]), [])
        for t in o:
            t['tid'] = len(g)
            g.append(t)
    glist = [(k[0], k[1], v) for k, v in groups.items()]
    rep.extra['elements_in_generated_configuration'] = len(isocheck.get_config(gen)) - 1
    rep.extra['pairs'] = 'all' if tier == 'thorough' else 'sample of 1600'
    for g in glist[:2]:
        rep.sample({'trace': g[2][0]['_desc'], 'message': g[2][0]['_m'][:200], 'codec': g[1], 'config': list(g[0])})
    isocheck.validate(rep, wd, glist, owner, 'iso')


def replay(rep, wd, payload):
    isocheck.replay(rep, wd, payload, owner, 'iso')
