"""C09 - a file cut short at any byte yields only its complete records, then stops/errors.

1. TLC exhaustive: MC_Vbs with the Truncate(k) action (every cut of every small writer file): TruncInv.
2. code -> spec: for each generated real file (VBS, blocked VBS) EVERY offset 0..len(file) is cut and read with the
   real VbsReader; the trace (cut k, next...) is validated by Trace_Vbs with strict = FALSE: records must be exactly the
   complete ones, the terminal outcome stop or the library error, nothing else.
   IPM files: every cut of real IpmWriter files is read with the real IpmReader and judged by Trace_Ipm (records before
   the cut decode to exactly their dictionaries; then stop or the library error).
"""
from . import core, drv, vbsc  # noqa
from .drv import P


def gen_file(r, blocked, nrecs, cap):
    recs, off = [], 0
    style = r.choice(vbsc.STYLES)
    for _ in range(nrecs):
        room = P - (off % P)
        n = r.choice((1, 3, room - 5, room - 4, room - 3, room, room + 1, room + P - 4, r.randrange(1, 60), r.randrange(1, 900)))
        n = min(max(1, n), 2030)
        if off + 4 + n > cap:
            n = r.randrange(1, 40)
        recs.append(vbsc.rec_content(r, n, style, off))
        off += 4 + n
    return recs


def _drive(args):
    seed, tid, blocked, nrecs, cap, lo, hi = args
    if nrecs == -77777:
        return _abandoned(seed, tid, blocked)
    r = drv.rng(seed, 'c09', tid)
    if nrecs == -99999:
        recs = [vbsc.rec_content(r, n_, 'code', i * 131) for i, n_ in enumerate([300 + (i * 37) % 200 for i in range(60)])]
    elif nrecs == -88888:
        # records that look like fill (all x40, all x00) and cross block boundaries: a cut at the end of such a record
        # leaves a short last block that holds nothing but x40
        recs = [b'@' * 1100, b'@' * 40, bytes(1000), b'@' * 900, b'@' * 1012]
    elif nrecs < 0:
        # single record whose end falls at payload offsets 1009..1016 of the first block (length -nrecs)
        recs = [vbsc.rec_content(r, -nrecs, 'code', 0)]
    else:
        recs = gen_file(r, blocked, nrecs, cap)
    _, data = drv.vbs_write_events(recs, blocked)
    lo = min(lo, len(data))
    hi = min(hi, len(data))
    events = [drv.ev('given', 0, '', data)]
    onfile = (nrecs >= 0 and tid % 3 == 2) or nrecs == -99999        # the cut file is a real file on disk
    for k in range(lo, hi + 1):
        events.append(drv.ev('cut', k))
        if onfile:
            import os
            path = os.path.join(core.VERIF, '.work', 'c09-%d-%d-%d.bin' % (os.getpid(), tid, lo))
            with open(path, 'wb') as fh:
                fh.write(data[:k])
            with open(path, 'rb') as fh:
                events += drv.read_events(data[:k], blocked, fileobj=fh)[0]
            os.unlink(path)
        else:
            events += drv.read_events(data[:k], blocked)[0]
    return {'tid': tid * 1000 + lo // 700, 'blk': blocked, 'strict': False, 'loc': False, 'events': events,
            '_desc': '%s file of %d bytes, records %s, every cut %d..%d' % ('blocked' if blocked else 'unblocked', len(data),
                                                                        [len(x) for x in recs], lo, hi)}


def _abandoned(seed, tid, blocked):
    """a writer that is never closed (the producer died): the file holds complete records and no end record.  It is
    read through the SAME file object; the abandoned writer object is collected while reading is under way."""
    import gc
    from cardutil import mciipm
    recs = [vbsc.rec_content(drv.rng(seed, 'aband', tid, i), n, 'code', i * 53) for i, n in enumerate((20, 300, 7, 1100, 64, 40))]
    f = drv.new_file()
    w = mciipm.VbsWriter(f, blocked=blocked)
    for x in recs:
        w.write(x)
    data = f.getvalue()
    f.seek(0)
    events = [drv.ev('given', 0, '', data)]
    rd = mciipm.VbsReader(f, blocked=blocked)
    for i in range(20):
        if i == 2:
            del w
            gc.collect()
        try:
            with drv.Watchdog(5.0):
                rec = next(rd)
        except StopIteration:
            events.append(drv.ev('next', 0, 'stop'))
            break
        except BaseException as ex:  # noqa
            events.append(drv._err_event(drv.exc_outcome(ex)))
            break
        events.append(drv.ev('next', 0, 'rec', rec))
    return {'tid': tid * 1000, 'blk': blocked, 'strict': False, 'loc': False, 'events': events,
            '_desc': '%s writer abandoned after %d records (never closed), read through the same file object; the writer '
                     'object is collected after two records' % ('blocked' if blocked else 'unblocked', len(recs))}


def _drive_ipm(args):
    """every cut of a real IPM file read with the real IpmReader (Trace_Ipm, strict = FALSE)"""
    from . import ipmc, isoc
    from .isoc import PKG
    seed, tid, blocked, enc, lo, hi = args
    bc = PKG['bit_config']
    r = drv.rng(seed, 'c09ipm', tid)
    msgs = []
    for i in range(max(2 if blocked else 1, r.choice((1, 2, 3)))):
        m = isoc.gen_message(r, bc, isoc.SAFE, maxbits=3)
        if i == 1:
            # a record that crosses the first block boundary, in an element that the extraction command writes out
            for kk in [x for x in m if x.startswith('PDS') or x in ('DE48', 'DE62', 'DE123', 'DE124', 'DE125')]:
                m.pop(kk)
            m['PDS0165'] = ''.join('RSTUVWXYZ'[j % 9] for j in range(940 + tid % 50))
        msgs.append(m)
    data = ipmc.write_file(msgs, enc, bc, blocked)
    hi = min(hi, len(data))
    events = [ipmc.iev(1, 'given', b=data)]
    import contextlib
    import csv
    import io
    import os
    from cardutil.cli import mci_ipm_to_csv
    cols = PKG['output_data_elements']
    for k in range(lo, hi + 1):
        events.append(ipmc.iev(1, 'cut', n=k))
        for e in ipmc.read_all_events(1, data[:k], enc, bc, blocked):
            e.pop('_exc', None)
            events.append(e)
        if k % 61 == 7 and not drv.THREADED:
            # the extraction COMMAND on the same cut file (it inspects the file first, then reads it): its CSV holds
            # exactly the complete records, row by row
            path = os.path.join(core.VERIF, '.work', 'c09tool-%d-%d-%d.ipm' % (os.getpid(), tid, k))
            drv.spit(path, data[:k])
            try:
                with drv.Watchdog(20.0), contextlib.redirect_stdout(io.StringIO()):
                    mci_ipm_to_csv.cli_run(in_filename=path, out_filename=path + '.csv', in_encoding=enc, no1014blocking=not blocked)
                rows = list(csv.DictReader(io.StringIO(drv.slurp(path + '.csv', 'r', newline=''), newline='')))
                events.append(ipmc.iev(1, 'cut', n=k))
                for x in rows:
                    e = ipmc.iev(1, 'csvrow')
                    e['d'] = [{'k': isoc.pkey(kk), 'v': isoc.pval(v)} for kk, v in x.items() if v not in ('', None)]
                    events.append(e)
                events.append(ipmc.iev(1, 'csvend'))
            except BaseException as ex:  # noqa
                e = ipmc.iev(1, 'tool', out='exc')
                e['_observed'] = drv.exc_outcome(ex)
                events.append(e)
            finally:
                for q in (path, path + '.csv'):
                    if os.path.exists(q):
                        os.unlink(q)
    return {'tid': tid * 100 + lo // 400, 'loc': False, 'strict': False, 'cols': [isoc.pkey(c) for c in cols], 'insts': [{'blk': blocked}], 'events': events,
            '_enc': enc, '_desc': '%s IPM file (%s) of %d bytes, %d messages, every cut %d..%d' % (
                'blocked' if blocked else 'unblocked', enc, len(data), len(msgs), lo, hi)}


def ipm_cuts(rep, wd, tier, seed):
    from . import ipmc
    jobs = []
    for i in range(8 if tier == 'thorough' else 2):
        for lo in range(0, 3 * (P + 2), 400):
            jobs.append((seed, i, bool(i & 1), ('latin_1', 'cp500')[(i // 2) % 2], lo, lo + 399))
    traces = [t for t in vbsc.parallel(_drive_ipm, jobs) if len(t['events']) > 1]
    cuts = sum(1 for t in traces for e in t['events'] if e['op'] == 'cut')
    rep.extra['ipm_cuts_read_with_real_reader'] = cuts
    groups = {}
    for t in traces:
        g = groups.setdefault(t['_enc'], [])
        t['tid'] = len(g)
        g.append(t)
    rep.sample({'trace': traces[0]['_desc']})
    before = rep.traces
    ipmc.validate(rep, wd, [(('pkg',), enc, ts) for enc, ts in groups.items()], lambda c: True, 'truncated-ipm', maxbatch=2)
    rep.traces = before + cuts


def run(rep, wd, tier, seed):
    rep.assumptions += ['TLC 1.8 evaluates the TLA+ text correctly', 'file objects: in-memory buffers, real files, pipes-like streams, gzip file objects (harness/drv.py)']
    vbsc.model_check(rep, wd, tier, invariants=('TruncInv', 'ReadBackInv'), props=())
    nfiles = 36 if tier == 'thorough' else 6
    # one long unblocked file (several I/O buffers long) read from disk: complete, and cut at offsets around the
    # buffer sizes 4096 / 8192
    bigjobs = []
    jobs = []
    for i in range(nfiles):
        blocked = bool(i & 1)
        nrecs = (1, 2, 3, 5, 8, 12)[i % 6]
        cap = (5 if tier == 'thorough' else 3) * P - 30
        # split each file's cuts into slices of 700 offsets so that batches stay small
        for lo in range(0, 7 * (P + 2), 700):
            jobs.append((seed, i, blocked, nrecs, cap, lo, lo + 699))
    # deterministic part: one record of every length 1005..1012 (the record ends on / next to the block boundary),
    # blocked (quick) and unblocked (thorough): every cut, in particular the cuts between the two pad bytes
    for n in range(1005, 1013):
        for blocked in ((True, False) if tier == 'thorough' else (True,)):
            for lo in range(0, 2 * (P + 2), 700):
                jobs.append((seed, 1000 + n * 2 + int(blocked), blocked, -n, 0, lo, lo + 699))
    for lo in range(0, 5 * (P + 2), 700):
        jobs.append((seed, 4000, True, -88888, 0, lo, lo + 699))
    for blocked in (False, True):
        jobs.append((seed, 4100 + int(blocked), blocked, -77777, 0, 0, 0))
    for lo in (4086, 8182, 16374, 24566):
        jobs.append((seed, 5000 + lo, False, -99999, 0, lo, lo + 24))
    jobs.append((seed, 5999, False, -99999, 0, 10 ** 6, 10 ** 6))          # the complete file
    from . import isocheck
    tjobs = [(seed, 7000 + k, bool(k & 1), (2, 3, 5)[k % 3], 2 * P - 30, lo, lo + 299) for k in range(4) for lo in (0, 900)]
    touts = isocheck.mark_threaded([[t] for t in isocheck.threaded('harness.c09', '_drive', tjobs, procs=2)])
    # part of the cuts of UNBLOCKED files in an interpreter started with -bb (text made from bytes is an error there).
    # Blocked files are left out: on the unchanged tree Block1014.write formats its argument into a debug message
    # (f'bytes_to_write={...}') whether or not debug logging is on, so every blocked write raises BytesWarning under
    # -bb - the library does not support that mode for blocked output (DESIGN 8.5, round 9)
    ub = [j for j in jobs if j[2] is False and j[3] not in (-77777,)]
    bjobs = [(j[0], 9000 + j[1]) + tuple(j[2:]) for j in ub[:: max(1, len(ub) // 16)]] + [(seed, 9900 + k, False, 3, 40, 0, 200) for k in range(4)]
    bouts = isocheck.pool_flags('harness.c09', '_drive', bjobs, ('-bb',))
    for t in bouts:
        t['_desc'] = str(t.get('_desc')) + ' [python -bb]'
    traces = [t for t in vbsc.parallel(_drive, jobs) + [o[0] for o in touts] + bouts if len(t['events']) > 1]
    cuts = sum(1 for t in traces for e in t['events'] if e['op'] == 'cut')
    rep.extra['cuts_read_with_real_reader'] = cuts
    rep.extra['files'] = nfiles
    rep.extra['file_traces'] = len(traces)
    rep.sample({'trace': traces[0]['_desc']})
    rep.sample({'trace': traces[-1]['_desc']})
    # one TLC per ~ equal share of traces
    # (thorough: smaller batches - one JSON document per TLC start; documents near 90 MB are not parsed reliably)
    batches = core.split(traces, core.NCPU * (8 if tier == 'thorough' else 1))
    vbsc.validate(rep, wd, batches, 'truncated')
    rep.traces = cuts   # every cut is one recorded execution of the real reader
    ipm_cuts(rep, wd, tier, seed)
    rep.exhaustive = True
    rep.notes.append('exhaustive over cut offsets per generated file; files are seeded samples')


def replay(rep, wd, payload):
    import sys
    core.generic_replay(sys.modules[__name__], rep, wd, payload)
