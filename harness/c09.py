"""C09 - a file cut short at any byte yields only its complete records, then stops/errors.

1. TLC exhaustive: MC_Vbs with the Truncate(k) action (every cut of every small writer file): TruncInv.
2. code -> spec: for each generated real file (VBS, blocked VBS) EVERY offset 0..len(file) is cut and read with the
   real VbsReader; the trace (cut k, next...) is validated by Trace_Vbs with strict = FALSE: records must be exactly the
   complete ones, the terminal outcome stop or the library error, nothing else.
   IPM files (IpmReader over every cut) are validated by the C09 part of harness/ipmc.py when the ISO8583 spec is loaded.
"""
from . import core, drv, vbsc
from .drv import P


def gen_file(r, blocked, nrecs, cap):
    recs, off = [], 0
    style = r.choice(vbsc.STYLES)
    for _ in range(nrecs):
        room = P - (off % P)
        n = r.choice((1, 3, room - 5, room - 4, room - 3, room, room + 1, room + P - 4, r.randrange(1, 60), r.randrange(1, 900)))
        n = min(max(1, n), 2030)
        if off + 4 + n > cap:
            n = r.randrange(1, 40)
        recs.append(vbsc.rec_content(r, n, style, off))
        off += 4 + n
    return recs


def _drive(args):
    seed, tid, blocked, nrecs, cap, lo, hi = args
    r = drv.rng(seed, 'c09', tid)
    recs = gen_file(r, blocked, nrecs, cap)
    _, data = drv.vbs_write_events(recs, blocked)
    hi = min(hi, len(data))
    events = [drv.ev('given', 0, '', data)]
    for k in range(lo, hi + 1):
        events.append(drv.ev('cut', k))
        events += drv.read_events(data[:k], blocked)[0]
    return {'tid': tid * 1000 + lo // 700, 'blk': blocked, 'strict': False, 'loc': False, 'events': events,
            '_desc': '%s file of %d bytes, records %s, every cut %d..%d' % ('blocked' if blocked else 'unblocked', len(data),
                                                                        [len(x) for x in recs], lo, hi)}


def run(rep, wd, tier, seed):
    rep.assumptions += ['TLC 1.8 evaluates the TLA+ text correctly', 'file objects are io.BytesIO']
    vbsc.model_check(rep, wd, tier, invariants=('TruncInv', 'ReadBackInv'), props=())
    nfiles = 36 if tier == 'thorough' else 6
    jobs = []
    for i in range(nfiles):
        blocked = bool(i & 1)
        nrecs = (1, 2, 3, 5, 8, 12)[i % 6]
        cap = (5 if tier == 'thorough' else 3) * P - 30
        # split each file's cuts into slices of 700 offsets so that batches stay small
        for lo in range(0, 7 * (P + 2), 700):
            jobs.append((seed, i, blocked, nrecs, cap, lo, lo + 699))
    traces = [t for t in vbsc.parallel(_drive, jobs) if len(t['events']) > 1]
    cuts = sum(1 for t in traces for e in t['events'] if e['op'] == 'cut')
    rep.extra['cuts_read_with_real_reader'] = cuts
    rep.extra['files'] = nfiles
    rep.extra['file_traces'] = len(traces)
    rep.sample({'trace': traces[0]['_desc']})
    rep.sample({'trace': traces[-1]['_desc']})
    # one TLC per ~ equal share of traces
    batches = core.split(traces, core.NCPU)
    vbsc.validate(rep, wd, batches, 'truncated')
    rep.traces = cuts   # every cut is one recorded execution of the real reader
    rep.exhaustive = True
    rep.notes.append('exhaustive over cut offsets per generated file; files are seeded samples')


def replay(rep, wd, payload):
    print('re-run the full check with VERIF_SEED=%s to reproduce (seeded generation)' % payload.get('seed'))
