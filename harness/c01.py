"""C01 - ISO8583 round trip: decoding an encoded message returns every value unchanged.

1. TLC exhaustive (MC_Iso): over the power set of a universe of elements x candidate values x {binary, hex} bitmap,
   exported from the working tree's configuration, the specification's own Layout and Reading agree (round trip,
   representability, predicted length) - for each of the three codecs.
2. code -> spec (Trace_Iso): recorded dumps -> loads executions of the real code: length sweep of every variable
   element (quick: boundary lengths; thorough: every length 1..99 / 1..999), random well-formed messages over the
   packaged and over generated configurations, x codecs x {binary, hex}. C01 owns the round-trip clauses; layout and
   reading clauses seen on this corpus are judged by C02/C08.
"""
import datetime
import decimal

from . import core, drv, isoc, isocheck
from .isoc import PKG

OWN = ('roundtrip-', 'dumps-refused-a-representable-message')


def owner(clause):
    return clause.startswith(OWN)


def universe(bc, codec):
    """elements x candidate values for MC_Iso, drawn from the working tree's configuration."""
    alpha = isoc.alphabet(codec)
    r = drv.rng(1, 'universe')
    pick = []
    for b in ('2', '3', '4', '12', '43', '48', '55', '71', '100', '127'):
        if b in bc:
            pick.append(b)
    uni = []
    for b in pick:
        f = bc[b]
        vals = []
        if f.get('field_processor') == 'PDS':
            continue
        ft = f['field_type']
        py = f.get('field_python_type') or 'string'
        if f.get('field_processor') == 'ICC':
            vals = [b'\x9f\x26\x02\x01\x02', b'\x82\x00\x5f\x2a\x01\xff\x00\x00']
        elif py in ('int', 'long'):
            w = f['field_length'] or 6
            vals = [0, 10 ** w - 1, 42]
        elif py == 'datetime':
            vals = [datetime.datetime(1969, 1, 1, 0, 0, 0), datetime.datetime(2000, 2, 29, 12, 30, 59),
                    datetime.datetime(2068, 12, 31, 23, 59, 59)]
        elif ft == 'FIXED':
            vals = [isoc.rtext(r, f['field_length'], alpha, 'safe'), isoc.rtext(r, f['field_length'], alpha, 'any')]
        else:
            cap = 99 if ft == 'LLVAR' else 999
            vals = [isoc.rtext(r, 1, alpha, 'safe'), isoc.rtext(r, cap, alpha, 'any'), isoc.rtext(r, 17, alpha, 'digits')]
            if f.get('field_processor') == 'DE43':
                vals[2] = 'ACME STORE  \\1 MAIN ST \\SYDNEY\\2000      NSWAUS'
        uni.append({'k': isoc.pkey('DE' + b), 'vals': [isoc.pval(v) for v in vals]})
    uni.append({'k': isoc.pkey('PDS0023'), 'vals': [isoc.pval('NNN'), isoc.pval('')]})
    uni.append({'k': isoc.pkey('PDS0158'), 'vals': [isoc.pval('A' * 992), isoc.pval('0023003XYZ')]})
    return uni


def model_check(rep, wd, tier):
    bc = PKG['bit_config']
    for codec in isocheck.CODECS_QUICK:
        uni = universe(bc, codec)
        if tier == 'quick':
            uni = uni[:6] + uni[-2:]
        else:
            uni = uni[:8] + uni[-2:]      # 10 of 11 elements: the full universe needs > 40 min per codec
        batch = {'consts': isoc.consts(bc, codec), 'traces': [], 'universe': uni}
        import json
        import os
        path = os.path.join(wd, 'mciso-%s.json' % codec)
        json.dump(batch, open(path, 'w'))
        res = core.run_tlc('MC_Iso', 'MC_Iso.cfg', wd, env={'TRACE_FILE': path}, workers=core.NCPU, timeout=3400)
        core.require_ok(res, 'MC_Iso ' + codec)
        rep.add_tlc('MC_Iso exhaustive codec=%s elements=%d' % (codec, len(uni)), res)


def icc_of_len(r, n):
    """a whole TLV sequence of exactly n bytes"""
    out = b''
    while len(out) < n:
        rem = n - len(out)
        if rem == 1:
            out += b'\x00'
        elif rem == 2:
            out += b'\x82\x00'
        else:
            k = min(rem, 257) - 2
            if rem - (k + 2) == 0 or rem - (k + 2) >= 1:
                out += b'\x95' + bytes([k]) + bytes(r.randrange(256) for _ in range(k))
    return out


def sweep_lengths(tier, cap):
    if tier == 'thorough':
        return range(1, cap + 1)
    return [n for n in (1, 2, 9, 10, 11, 98, 99, 100, 101, 998, 999) if n <= cap]


def _drive(args):
    isoc.ALLOW_UNENCODABLE = True
    seed, cfgspec, codec, kind, lo, hi = args
    bc = isocheck.get_config(cfgspec)
    alpha = isoc.alphabet(codec)
    out = []
    if kind == 'sweep':
        tier = lo
        tid = 0
        for b, f in sorted(bc.items(), key=lambda kv: int(kv[0])):
            if b == '1' or f['field_type'] == 'FIXED' or f.get('field_processor') in ('PDS',):
                continue
            cap = 99 if f['field_type'] == 'LLVAR' else 999
            for n in sweep_lengths(tier, cap):
                r = drv.rng(seed, 'sweep', b, n)
                if f.get('field_processor') == 'ICC':
                    v = icc_of_len(r, n)
                elif (f.get('field_python_type') or 'string') in ('int', 'long'):
                    continue
                else:
                    v = isoc.rtext(r, n, alpha)
                m = {'MTI': '1240', 'DE' + b: v}
                hexb = bool((n + int(b)) & 1)
                out.append(isocheck.roundtrip_trace(tid, m, bc, codec, hexb, 'length sweep DE%s len %d' % (b, n)))
                tid += 1
        return out
    if cfgspec[0] == 'pkgvar':
        # same process, same element numbers, another carrier assignment used just before
        for i in range(3):
            isoc.iso8583.dumps({'MTI': '1240', 'PDS0001': 'warm-up %d' % i}, iso_config=isocheck.get_config(('pkg',)))
    for tid in range(lo, hi):
        r = drv.rng(seed, 'c01', cfgspec, codec, tid)
        if tid % 25 == 7:
            # a dumps that is (correctly) refused part-way must not influence the calls that follow
            varbits = [b_ for b_ in bc if b_ != '1' and bc[b_]['field_type'] != 'FIXED' and not bc[b_].get('field_processor')
                       and (bc[b_].get('field_python_type') or 'string') == 'string']
            if varbits:
                bad = {'MTI': '1240', 'DE' + varbits[len(varbits) // 2]: 'x' * 1200}
                for b_ in varbits[:len(varbits) // 2][:3]:
                    bad['DE' + b_] = 'ok'
                isoc.do_dumps(bad, codec, bc, bool(tid & 1))
        m = isoc.gen_message(r, bc, alpha, maxbits=r.choice((3, 8, 20, 40)))
        if tid % 6 == 5:
            # the LAST element of the message ends in a line feed / carriage return (text) or in x0A / x0D (chip data):
            # a hexadecimal-bitmap message is printable, but it is not a line of text
            des = sorted((int(k[2:]) for k in m if k.startswith('DE') and k[2:].isdigit()), reverse=True)
            for b_ in des[:1]:
                f_, v_ = bc[str(b_)], m['DE%d' % b_]
                if isinstance(v_, bytes) and v_:
                    m['DE%d' % b_] = v_[:-1] + (b'\n', b'\r')[tid % 2]
                elif isinstance(v_, str) and v_ and not f_.get('field_processor') and not f_.get('field_python_type'):
                    m['DE%d' % b_] = v_[:-1] + ('\n', '\r')[tid % 2]
        out.append(isocheck.roundtrip_trace(tid, m, bc, codec, bool(tid & 1), 'random well-formed message'))
    return out


def run(rep, wd, tier, seed):
    rep.assumptions += ['TLC 1.8 evaluates the TLA+ text correctly',
                        'codec tables exported from the interpreter (codecs are trusted base)',
                        'strftime/strptime agree with spec/Iso8583.tla FormatDt/ParseDt on plain digits (DESIGN appendix A)']
    model_check(rep, wd, tier)
    codecs = isocheck.CODECS_QUICK if tier == 'quick' else tuple(isocheck.single_byte_codecs())
    jobs = []
    for codec in isocheck.CODECS_QUICK:
        jobs.append((seed, ('pkg',), codec, 'sweep', tier, 0))
    nrand = 2500 if tier == 'thorough' else 150
    cfgs = [('pkg',), ('pkgvar', 0), ('pkgvar', 1), ('pkgshuf', seed % 3), ('pkgstr',)] + [('gen', seed * 100 + i) for i in range(6 if tier == 'thorough' else 2)]
    for cfgspec in cfgs:
        for codec in ((tuple(codecs) + (isocheck.CODECS_EXTRA if tier == 'quick' else ())) if cfgspec[0] == 'pkg' else isocheck.CODECS_QUICK):
            n = nrand if codec in isocheck.CODECS_QUICK else max(40, nrand // 10)
            for lo in range(0, n, 400):
                jobs.append((seed, cfgspec, codec, 'rand', lo, min(n, lo + 400)))
    outs = isocheck._pool(_drive, jobs)
    # the same drivers from four threads at once (different configurations / code pages / message shapes per thread)
    tjobs = [(seed, cfgspec, codec, 'rand', 5000 + 200 * i, 5000 + 200 * i + (400 if tier == 'thorough' else 160))
             for i, (cfgspec, codec) in enumerate([(('pkg',), 'latin_1'), (('gen', seed * 100), 'cp500'), (('pkgvar', 0), 'cp037'),
                                                   (('pkg',), 'cp500'), (('gen', seed * 100 + 1), 'latin_1'), (('pkgshuf', 1), 'cp500'),
                                                   (('pkg',), 'cp037'), (('pkgvar', 1), 'latin_1')])]
    jobs = jobs + tjobs
    outs = outs + isocheck.mark_threaded(isocheck.threaded('harness.c01', '_drive', tjobs))
    rep.extra['histories_driven_from_four_threads_at_once'] = sum(len(o) for o in outs[-len(tjobs):])
    groups = [(j[1], j[2], o) for j, o in zip(jobs, outs)]
    rep.extra['codecs'] = list(codecs)
    rep.extra['configurations'] = [list(c) for c in cfgs]
    for g in groups[:1] + groups[-1:]:
        if g[2]:
            rep.sample({'trace': g[2][0]['_desc'], 'message': g[2][0]['_m'][:200], 'codec': g[1]})
    isocheck.validate(rep, wd, groups, owner, 'iso')
    rep.exhaustive = False


def replay(rep, wd, payload):
    isocheck.replay(rep, wd, payload, owner, 'iso')
