"""C17 - file inspection recognises writer output: validity, encoding family, blocking.

1. TLC: MC_Inspect - the blocking probe rule at scaled sizes over 1..8 blocks (the pre-repair rule is kept as
   spec/MC_Inspect_old.cfg, where TLC exhibits defect D13 at 3 blocks).
2. code -> spec: real files from the real writer - messages x {latin_1, cp500, cp037} x {VBS, 1014} x every block
   count 1..10 (record sizes chosen to hit each count), unblocked files engineered to carry 0x40 0x40 at bytes
   1012-1013, and the invalid classes at their boundaries (23/24 bytes, maximum / maximum+1 first length, every
   unconfigured bit) - are inspected by the real ipm_info; TLC (Trace_Inspect) decides each report.
"""
import io
import os
import struct

from . import core, drv, isoc, ipmc
from .c04 import write_cfg, validate_batches
from .isoc import PKG

from cardutil import mciipm


def family_of(label):
    """project a reported encoding label by semantics, not spelling"""
    if label is None:
        return 'absent'
    try:
        b = '0123456789'.encode(label)
    except Exception:
        return 'other'
    if b == b'0123456789':
        return 'ascii'
    if b == bytes(range(0xf0, 0xfa)):
        return 'ebcdic'
    return 'other'


def inspect(data):
    k = drv.pick(6, 'insp', len(data), bytes(data[:6])) if not drv.THREADED else 0
    if k == 2:
        src = io.BufferedReader(io.BytesIO(data), buffer_size=512)       # peek() returns at most what the small buffer holds
    elif k == 4:
        src = io.BufferedReader(io.BytesIO(data), buffer_size=1024)
    else:
        src = drv.new_file(data)
    try:
        with drv.Env('inspect', len(data), data[4:8], data[-2:]), drv.Watchdog(5.0):
            info = mciipm.ipm_info(src)
    except BaseException as ex:  # noqa
        return {'valid': False, 'reason': False, 'blocked': 'absent', 'family': 'absent'}, drv.exc_outcome(ex)
    obs = {'valid': info.get('isValidIPM') is True, 'reason': bool(info.get('reason')),
           'blocked': 'absent' if 'isBlocked' not in info else ('yes' if info['isBlocked'] is True else 'no'),
           'family': family_of(info.get('encoding')) if 'encoding' in info else 'absent'}
    return obs, info


def trace(tid, data, writer, blk, fam, desc):
    obs, raw = inspect(data)
    return {'tid': tid, 'head': list(data[:1100]), 'flen': len(data),
            'facts': {'writer': writer, 'blk': blk, 'family': fam}, 'obs': obs, '_desc': desc, '_raw': repr(raw)[:300]}


def _drive_threads(args):
    """one harness thread: inspects its own files over and over (writer files of three blocks in both families,
    inputs whose first bitmap uses an unconfigured element)"""
    import struct
    seed, k = args
    from .isoc import PKG
    bc = PKG['bit_config']
    enc = ('latin_1', 'cp500')[k % 2]
    msgs = [{'MTI': '1240', 'DE3': '123456', 'DE72': 'thread %d ' % k * 90}] * 3
    good_b = ipmc.write_file(msgs, enc, bc, True)
    good_u = ipmc.write_file(msgs[:1], enc, bc, False)
    bm = bytearray(16)
    bm[0] |= 0x82                     # bit 1 and bit 7 (no configuration)
    bad = struct.pack('>I', 40) + b'1240' + bytes(bm) + b'0' * 60
    out = []
    fam = 'ascii' if enc == 'latin_1' else 'ebcdic'
    for i in range(120):
        which = (i + k) % 3
        if which == 0:
            out.append(trace(0, good_b, True, True, fam, '%s blocked writer file of %d bytes' % (enc, len(good_b))))
        elif which == 1:
            out.append(trace(0, bad, False, False, 'ascii', 'first bitmap uses unconfigured bit 7'))
        else:
            out.append(trace(0, good_u, True, False, fam, '%s vbs writer file of %d bytes' % (enc, len(good_u))))
    return out


def message_of_size(r, n, enc):
    """a well-formed message whose encoding is at most n bytes and close to it (n >= 34)"""
    m = {'MTI': '1240', 'DE3': '123456'}
    left = n - len(isoc.iso8583.dumps(dict(m), encoding=enc))
    for de in ('DE72', 'DE127', 'DE111', 'DE54', 'DE63'):
        if left < 4:
            break
        k = min(999, left - 3)
        m[de] = ('%s-%d ' % (de, n) * 200)[:k]
        left -= 3 + k
    return m


def run(rep, wd, tier, seed):
    rep.assumptions += ['TLC 1.8 evaluates the TLA+ text correctly',
                        'a reported encoding label is projected to a family by what it encodes the ten digits to']
    cfg = write_cfg(os.path.join(wd, 'MC_Inspect.cfg'), 'CONSTANTS P = 12 T = 2 S = 30 MaxBlocks = 8\nSPECIFICATION Spec\n'
                    'INVARIANT ProbeNew\nCHECK_DEADLOCK FALSE\n')
    res = core.run_tlc('MC_Inspect', cfg, wd, workers=1)
    core.require_ok(res, 'MC_Inspect', min_states=8)
    rep.add_tlc('MC_Inspect (scaled probe rule)', res)
    bc = PKG['bit_config']
    maxlen = drv.max_vbs_len()
    traces = []
    r = drv.rng(seed, 'c17')
    # writer files: every block count 1..10, blocked and unblocked, three encodings
    for enc, fam in (('latin_1', 'ascii'), ('cp500', 'ebcdic'), ('cp037', 'ebcdic')):
        for blocked in (True, False):
            for nblocks in range(1, 11 if tier == 'quick' else 17):
                for variant in range(2 if tier == 'quick' else 5):
                    target = nblocks * drv.P - 4 - r.randrange(0, 900 if nblocks > 1 else 700)     # payload bytes incl. terminator
                    msgs, used = [], 4
                    while used < target - 40:
                        n = min(r.choice((60, 200, 950, 2500, 5000)), target - used - 4)
                        if n < 34:
                            break
                        m = message_of_size(r, n, enc)
                        msgs.append(m)
                        used += 4 + len(isoc.iso8583.dumps(dict(m), encoding=enc))
                    if not msgs:
                        msgs = [{'MTI': '1240', 'DE3': '123456'}]
                    data = ipmc.write_file(msgs, enc, bc, blocked)
                    traces.append(trace(len(traces), data, True, blocked, fam,
                                        '%s %s writer file, %d records, %d bytes (%d blocks)' % (enc, '1014' if blocked else 'vbs',
                                                                                               len(msgs), len(data), len(data) // 1014 if blocked else 0)))
    # blocked files whose data (records, length prefixes, terminator) is exactly 1, 2, 3 times 1012 bytes, and
    # files whose first record is longer than the inspection sample
    for enc, fam in (('latin_1', 'ascii'), ('cp500', 'ebcdic')):
        for k in (1, 2, 3):
            for split in (1, 2):
                total = 1012 * k - 4                          # minus the terminator
                if split == 1:
                    sizes = [total - 4]
                else:
                    sizes = [(total - 8) // 2, total - 8 - (total - 8) // 2]
                if max(sizes) > 5990 or min(sizes) < 40:
                    continue
                msgs = [isoc.message_exact(n_, enc) for n_ in sizes]
                data = ipmc.write_file(msgs, enc, bc, True)
                traces.append(trace(len(traces), data, True, True, fam, '%s blocked writer file whose data is exactly %d x 1012 bytes (%d records), %d bytes'
                                    % (enc, k, len(sizes), len(data))))
        for first in (266, 522, 2570):
            data = ipmc.write_file([isoc.message_exact(first, enc), isoc.message_exact(300, enc)], enc, bc, True)
            traces.append(trace(len(traces), data, True, True, fam, '%s blocked writer file whose first record is %d bytes (x0A in its length)' % (enc, first)))
        lf = {'MTI': '1240', 'DE3': '123456', 'DE72': 'line one\nline two\r\nline three', 'DE93': '12345', 'DE95': '1234567890'}
        data = ipmc.write_file([lf, lf], enc, bc, True)
        traces.append(trace(len(traces), data, True, True, fam, '%s blocked writer file with line feeds in text and bitmap byte x0A' % enc))
        for first in (2496, 2497, 2600, 4000, 5990):
            for blocked in (True, False):
                data = ipmc.write_file([isoc.message_exact(first, enc), {'MTI': '1240', 'DE3': '123456'}], enc, bc, blocked)
                traces.append(trace(len(traces), data, True, blocked, fam, '%s %s writer file whose first record is %d bytes' %
                                    (enc, '1014' if blocked else 'vbs', first)))
    # unblocked files engineered to have 0x40 0x40 at bytes 1012-1013
    for enc, fam in (('latin_1', 'ascii'), ('cp500', 'ebcdic')):
        for extra in (0, 1, 3):
            # first record ends so that a later record's content covers offsets 1012..1013 with '@@' (0x40 in latin_1) / spaces (0x40 in cp500)
            fill = '@' if enc == 'latin_1' else ' '
            m1 = message_of_size(r, 600, enc)
            m2 = {'MTI': '1240', 'DE3': '123456', 'DE72': fill * 900}
            msgs = [m1, m2] + [{'MTI': '1240', 'DE3': '654321'}] * extra
            data = ipmc.write_file(msgs, enc, bc, False)
            traces.append(trace(len(traces), data, True, False, fam, '%s vbs writer file with 0x40 0x40 at 1012-1013 (%s)' %
                                (enc, data[1012:1014].hex())))
    # near misses of the don't-care: only ONE of the bytes 1012 / 1013 is 0x40 (and bytes 2026-2027 are 0x40 0x40):
    # the file is unblocked and must be reported unblocked
    for enc, fam in (('latin_1', 'ascii'), ('cp500', 'ebcdic')):
        fill = '@' if enc == 'latin_1' else ' '
        other = 'x'
        for which in (0, 1):
            base = {'MTI': '1240', 'DE3': '123456'}
            head = len(isoc.iso8583.dumps(dict(base), encoding=enc)) + 4 + 3       # record prefix + DE72 prefix
            # DE72 text position p sits at file offset head + p
            txt = [other] * 999
            for off, ch in ((1012, fill if which == 0 else other), (1013, fill if which == 1 else other)):
                if 0 <= off - head < 999:
                    txt[off - head] = ch
            m1 = dict(base, DE72=''.join(txt))
            d1 = ipmc.write_file([m1], enc, bc, False)
            # second record: fill characters over offsets 2026..2027
            m2 = {'MTI': '1240', 'DE3': '123456', 'DE72': fill * 999, 'DE127': fill * 200}
            data = ipmc.write_file([m1, m2], enc, bc, False)
            traces.append(trace(len(traces), data, True, False, fam,
                                '%s vbs writer file, bytes 1012-1013 = %s, bytes 2026-2027 = %s' % (enc, data[1012:1014].hex(), data[2026:2028].hex())))
    # invalid classes at their boundaries
    good = ipmc.write_file([{'MTI': '1240', 'DE3': '123456'}], 'latin_1', bc, False)
    for n in (0, 1, 4, 20, 22, 23):
        traces.append(trace(len(traces), good[:n], False, False, 'ascii', 'input of %d bytes' % n))
    traces.append(trace(len(traces), (good + b'\x00' * 8)[:24], False, False, 'ascii', 'input of 24 bytes'))
    for ln in (maxlen, maxlen + 1, maxlen + 2, 2 ** 24, 2 ** 31, 2 ** 32 - 1):
        body = isoc.iso8583.dumps({'MTI': '1240', 'DE3': '123456'})
        data = struct.pack('>I', ln) + body + b'\x00' * 40
        traces.append(trace(len(traces), data, False, False, 'ascii', 'first length %d' % ln))
    for bit in range(2, 129):
        if str(bit) in bc:
            continue
        for bit1 in ((True, False) if bit > 64 else (True,)):
            bm = bytearray(16)
            if bit1:
                bm[0] |= 0x80
            bm[(bit - 1) // 8] |= 1 << (7 - (bit - 1) % 8)
            # the message type in front of that bitmap: digits in either family, and bytes that are digits in neither
            mtis = (b'1240', b'\xf1\xf2\xf4\xf0', b'@@@@', b'\x00\x00\x00\x00', b'ABCD', b'\xff\xfe\xfd\xfc', b'12\xb240', b'    ')
            for mti in (mtis if bit in (7, 65, 128, 47) else (mtis[0], mtis[1 + bit % 7])):
                data = struct.pack('>I', 40) + mti + bytes(bm) + b'0' * 60
                traces.append(trace(len(traces), data, False, False, 'ascii', 'first bitmap uses unconfigured bit %d%s, message type %r' %
                                    (bit, '' if bit1 else ' (bit 1 off)', mti)))
    # writer files whose FIRST message carries no data element at all (a bare message type; bitmap x80 00 .. 00)
    for enc in ('latin_1', 'cp500'):
        for blocked in (False, True):
            for rest in (0, 2, 40):
                data = ipmc.write_file([{'MTI': '1644'}] + [{'MTI': '1240', 'DE3': '123456', 'DE72': 'x' * 90}] * rest, enc, bc, blocked)
                traces.append(trace(len(traces), data, True, blocked, 'ascii' if enc == 'latin_1' else 'ebcdic',
                                    '%s %s writer file whose first message is a bare message type, %d more records' % (enc, '1014' if blocked else 'vbs', rest)))
    # records whose bitmap is rendered as 32 hexadecimal characters (the iso8583 hex_bitmap option): read as an IPM file
    # their first 16 bitmap bytes are ASCII characters, i.e. a bitmap that uses unconfigured elements
    for enc in ('latin_1', 'cp500'):
        for hm in ({'MTI': '1240', 'DE3': '123456'}, {'MTI': '1644', 'DE24': '697', 'DE71': 1}, {'MTI': '1240', 'DE2': '5' * 16, 'DE72': 'text ' * 40}):
            rec = isoc.iso8583.dumps(dict(hm), encoding=enc, hex_bitmap=True)
            for blocked in (False, True):
                data = mciipm.vbs_list_to_bytes([rec] * 3, blocked=blocked)
                traces.append(trace(len(traces), data, False, blocked, 'ascii', '%s records with a hexadecimal bitmap (%s), %s' % (
                    enc, rec[4:36].decode('ascii'), '1014' if blocked else 'vbs')))
            traces.append(trace(len(traces), struct.pack('>I', len(rec)) + rec[:35], False, False, 'ascii', 'input of 39 bytes with hexadecimal characters at 8..38'))
    # the configuration is changed at run time AFTER inspections have been made: element 7 configured, element 127 removed
    from cardutil import config as cfgmod
    saved = cfgmod.config['bit_config']
    changed = dict(saved)
    changed['7'] = {'field_name': 'added at run time', 'field_type': 'FIXED', 'field_length': 10}
    del changed['127']
    traces2 = []
    try:
        cfgmod.config['bit_config'] = changed
        f7 = ipmc.write_file([{'MTI': '1240', 'DE3': '123456', 'DE7': '0123456789'}], 'latin_1', changed, False)
        traces2.append(trace(0, f7, True, False, 'ascii', 'writer file using element 7, configured at run time after earlier inspections'))
        f127 = ipmc.write_file([{'MTI': '1240', 'DE3': '123456', 'DE127': 'network data'}], 'latin_1', saved, False)
        traces2.append(trace(1, f127, False, False, 'ascii', 'first bitmap uses element 127 whose configuration was removed at run time'))
    finally:
        cfgmod.config['bit_config'] = saved
    consts2 = isoc.consts(changed, 'latin_1')
    # the configured maximum record length changed at run time
    extra_batches = []
    savedmax = cfgmod.config.get('MAX_VBS_RECORD_LENGTH', 6000)
    try:
        for newmax in (9000, 1000):
            cfgmod.config['MAX_VBS_RECORD_LENGTH'] = newmax
            ts = []
            for ln in (newmax - 1, newmax, newmax + 1, 6001 if newmax > 6000 else 1001, 5999 if newmax > 6000 else 999):
                body = isoc.iso8583.dumps({'MTI': '1240', 'DE3': '123456'})
                data = struct.pack('>I', ln) + body + b'\x00' * 40
                ts.append(trace(len(ts), data, False, False, 'ascii', 'first length %d with the maximum changed to %d at run time' % (ln, newmax)))
            extra_batches.append({'consts': None, 'traces': ts, 'maxlen': newmax})
    finally:
        cfgmod.config['MAX_VBS_RECORD_LENGTH'] = savedmax
    cfgp = write_cfg(os.path.join(wd, 'Trace_Inspect.cfg'),
                     'CONSTANTS P = 1012 T = 2 PAD = 64 MaxLen = %d\nSPECIFICATION TSpec\nPOSTCONDITION AllAccepted\n'
                     'CHECK_DEADLOCK FALSE\n' % maxlen)
    # four threads at once, each inspecting its own files
    from . import isocheck
    for o in isocheck.mark_threaded(isocheck.threaded('harness.c17', '_drive_threads', [(seed, k) for k in range(8)], procs=2)):
        for t in o:
            t['tid'] = len(traces)
            traces.append(t)
    # two writers alive at the same time (one per code page), fed alternately; each then inspects its own files
    for o in isocheck.lockstep('harness.c17', '_drive_threads', [(seed, k) for k in range(20, 24)], procs=2):
        for t in o:
            t['tid'] = len(traces)
            traces.append(t)
    batches = [{'consts': None, 'traces': p} for p in core.split(traces, 6)] + [{'consts': consts2, 'traces': traces2}] + extra_batches
    cfgs = {}
    for b in extra_batches:
        cfgs[b['maxlen']] = write_cfg(os.path.join(wd, 'Trace_Inspect-%d.cfg' % b['maxlen']),
                                      'CONSTANTS P = 1012 T = 2 PAD = 64 MaxLen = %d\nSPECIFICATION TSpec\nPOSTCONDITION AllAccepted\n'
                                      'CHECK_DEADLOCK FALSE\n' % b['maxlen'])
    consts = isoc.consts(bc, 'latin_1')

    def describe(t, rj):
        return {'case': t['_desc'], 'clause': rj[3], 'facts': t['facts'], 'reported': t['obs'], 'raw': t['_raw']}
    # validate_batches passes {'traces': ...}; Trace_Inspect also needs consts -> run directly
    from concurrent.futures import ThreadPoolExecutor

    def one(i):
        return core.tlc_batch('Trace_Inspect', cfgs.get(batches[i].get('maxlen'), cfgp), wd,
                              {'consts': batches[i]['consts'] or consts, 'traces': batches[i]['traces']}, 'insp-%d' % i)
    with ThreadPoolExecutor(9) as ex:
        outs = list(ex.map(one, range(len(batches))))
    for b, (acc, rejects, res) in zip(batches, outs):
        rep.add_tlc('Trace_Inspect batch', res)
        rep.traces += len(b['traces'])
        by = {t['tid']: t for t in b['traces']}
        for rj in rejects:
            t = by[rj[1]]
            key = rj[3]
            if rj[3] == 'blocked-file-not-reported-blocked':
                key += ':%s-blocks' % ('3-or-more' if t['flen'] >= 3 * 1014 else str(t['flen'] // 1014))
            rep.violation('inspect:' + key, describe(t, rj))
    rep.sample({'trace': traces[0]['_desc'], 'reported': traces[0]['obs']})
    rep.sample({'trace': traces[-1]['_desc'], 'reported': traces[-1]['obs']})
    rep.extra['files_inspected'] = len(traces)
    rep.exhaustive = True


def replay(rep, wd, payload):
    import sys
    core.generic_replay(sys.modules[__name__], rep, wd, payload)
