"""MC_Framing runner (shared by C07 - termination/totality - and C08 - framing invariants)."""
import json
import os

from . import core, isoc
from .c04 import write_cfg


def model_check(rep, wd, tier):
    cfg = {'1': {}, '2': {'field_type': 'LLVAR', 'field_length': 0},
           '3': {'field_type': 'FIXED', 'field_length': 2},
           '4': {'field_type': 'LLLVAR', 'field_length': 0, 'field_python_type': 'int'},
           '5': {'field_type': 'LLVAR', 'field_length': 0, 'field_processor': 'PDS'}}
    consts = isoc.consts(cfg, 'ascii')
    consts['alphabet'] = [0x30, 0x31, 0x2d, 0x20, 0x5f, 0x41, 0xff] if tier == 'thorough' else [0x30, 0x31, 0x2d, 0x20, 0x41, 0xff]
    consts['elems'] = [2, 3, 4, 5, 6] if tier == 'thorough' else [2, 3, 4, 6]
    path = os.path.join(wd, 'framing.json')
    json.dump({'consts': consts, 'traces': []}, open(path, 'w'))
    c = write_cfg(os.path.join(wd, 'MC_Framing.cfg'),
                  'CONSTANT MaxData = %d\nSPECIFICATION Spec\nINVARIANT PtrInv\nINVARIANT TileInv\nINVARIANT OwnBytesInv\n'
                  'INVARIANT DoneAgrees\nPROPERTY Terminates\nCHECK_DEADLOCK FALSE\n' % (6 if tier == 'thorough' else 4))
    res = core.run_tlc('MC_Framing', c, wd, env={'TRACE_FILE': path}, workers=core.NCPU, timeout=3400)
    core.require_ok(res, 'MC_Framing')
    rep.add_tlc('MC_Framing exhaustive (decoder step machine: framing invariants + termination)', res)
