r"""C20 - CSV to IPM to CSV returns the same rows.

Tables of well-formed messages over the configured output columns (MTI, data elements, PDS sub-elements; numbers in
plain decimal, date-times as YYYY-MM-DD hh:mm:ss, empty cells = absent; values with commas, quotes, spaces; boundary
lengths) are written with the csv module, converted by the real mci_csv_to_ipm and back by the real mci_ipm_to_csv
(function entry points and cli_run on real files; blocked/unblocked; latin_1/cp500), and the output is parsed with
the csv module.  TLC decides (Trace_Ipm) that the IPM file in the middle is the writer file of Layout(dict(row)) for
every row - with typed text converted as the specification prescribes - and (Trace_Csv) that the output table has the
same rows in the same order with the same text in every supplied column.  The specification's own round trip over
typed text columns is model-checked in MC_Iso (shared with C01).
"""
import contextlib
import csv
import io
import os

from . import core, drv, isoc, isocheck, ipmc
from .isoc import PKG
from .c04 import validate_batches

from cardutil.cli import mci_csv_to_ipm, mci_ipm_to_csv


def owner(clause):
    return True


SPECIALS = [',', '"', ' ', "'", ';', '\t', '""', ', ', ' ,"', '\x0b', '\x0c', '\x1c', '\x1d', '\x1e', '\x85', '\x1c12', '\x1d0']


def cell_text(r, n, latin):
    alpha = isoc.SAFE + ([chr(c) for c in range(0xa1, 0x100)] if latin else [])
    s = ''.join(r.choice(alpha) for _ in range(n))
    if r.random() < 0.08:
        return ' ' * n                                   # an all-blank value
    if n >= 2 and r.random() < 0.15:
        s = ' ' * r.randrange(1, n) + s[n - 1:] * 1 + s[:0]
        s = (s + 'x' * n)[:n]                            # leading blanks
    if n >= 3 and r.random() < 0.6:
        k = r.randrange(n - 1)
        sp = r.choice(SPECIALS)[:n - k]
        s = s[:k] + sp + s[k + len(sp):]
    return s.replace('\n', ' ').replace('\r', ' ')


def gen_row(r, bc, cols, latin):
    row = {'MTI': '%04d' % r.randrange(10000)}
    decols = [c for c in cols if c.startswith('DE') and '_' not in c]
    pdscols = [c for c in cols if c.startswith('PDS')]
    use_pds = r.random() < 0.5
    for c in r.sample(decols, r.randrange(1, len(decols) + 1)):
        f = bc[c[2:]]
        py = f.get('field_python_type') or 'string'
        ft, flen = f['field_type'], f['field_length']
        if c == 'DE48':
            if use_pds or r.random() < 0.5:
                continue
            cfgtags = [c[3:] for c in pdscols]
            items = sorted(((r.choice(cfgtags) if r.random() < 0.6 else '%04d' % r.randrange(1, 9999)),
                            cell_text(r, r.randrange(0, 20), False)) for _ in range(r.randrange(1, 4)))
            row[c] = ''.join('%s%03d%s' % (t, len(v), v) for t, v in dict(items).items())
            continue
        if py in ('int', 'long'):
            row[c] = str(r.choice((0, 1, 10 ** flen - 1, r.randrange(10 ** flen))))
        elif py == 'datetime':
            row[c] = isoc.rdatetime(r, f['field_date_format']).strftime('%Y-%m-%d %H:%M:%S')
        elif ft == 'FIXED':
            v = cell_text(r, flen, latin)
            row[c] = v
        else:
            cap = 99 if ft == 'LLVAR' else 999
            row[c] = cell_text(r, r.choice((1, 2, cap, cap - 1, r.randrange(1, min(cap, 40) + 1))), latin)
    if use_pds:
        for c in r.sample(pdscols, r.randrange(1, len(pdscols) + 1)):
            row[c] = cell_text(r, r.choice((1, 3, 30, 200)), latin)
    return {k: v for k, v in row.items() if v != ''}


def to_csv(rows, cols):
    out = io.StringIO()
    used = [c for c in cols if any(c in row for row in rows)]
    w = csv.DictWriter(out, fieldnames=used, lineterminator='\n')
    w.writeheader()
    for row in rows:
        w.writerow(row)
    return out.getvalue()


def prow(row):
    return [{'name': k, 'text': [ord(c) for c in v]} for k, v in row.items() if v not in ('', None)]


def _drive(args):
    seed, wd, ids = args
    cfg = PKG
    bc = cfg['bit_config']
    cols = cfg['output_data_elements']
    out = []
    for tid in ids:
        r = drv.rng(seed, 'c20', tid)
        enc = ('latin_1', 'cp500')[tid % 2]
        blocked = bool(tid & 2)
        via_cli = tid % 5 == 0
        latin = (not via_cli and tid % 3 == 0) or tid % 10 == 5
        n = r.choice((1, 2, 5, 20)) if tid % 13 else 200
        rows = [gen_row(r, bc, cols, latin) for _ in range(n)]
        if tid % 20 == 10:
            enc, blocked, n = 'cp500', False, 4
            rows = [{'MTI': '1240', 'DE2': '5%015d' % i, 'PDS0165': 'M' + ' ' * 646 + 'x'} for i in range(4)]
        if tid % 8 == 7:
            # an otherwise plain table (no cell needs quoting: letters, digits, blanks) - the export-like cells added
            # below are then the only quoted text in the whole file
            rows = []
            for i in range(n):
                row = {'MTI': '1240', 'DE2': '5%015d' % r.randrange(10 ** 15), 'DE4': str(r.randrange(1, 10 ** 6)),
                       'DE12': '2024-03-%02d 10:%02d:12' % (1 + i % 28, i % 60), 'DE38': 'A%05d' % (i % 100000),
                       'DE42': ('SHOP %d MAIN ST' % i).ljust(15)[:15]}
                if i % 2 == 0:
                    row[('PDS0158', 'PDS0165')[(tid // 8) % 2]] = 'MCC %d' % (5000 + i)
                rows.append(row)
        if tid % 4 == 3 and tid % 20 != 10:
            # cells that themselves look like a line of another export: a quoted word between semicolons, bars or tabs,
            # in the last (and in a middle) column of the table
            used = [c for c in cols if any(c in row for row in rows)]
            pds = [c for c in used if c.startswith('PDS')]
            inner = ('MCC;"5411";1', 'a|"b"|c', 'x\t"y"\tz', ";'q';", '1;"2";3;"4";5')[(tid // 4) % 5]
            if pds and used[-1] == pds[-1]:
                for row in rows[:2]:
                    row.pop('DE48', None)            # (a supplied DE48 would be replaced by the packed PDS cells)
                    row[pds[-1]] = inner
                    row[pds[0]] = inner
            else:
                for row in rows[:2]:
                    row.pop('DE48', None)
                    row['PDS0165'] = inner
        site_extra = via_cli and tid % 15 == 5 and tid % 10 != 5
        cols_used = cols
        if site_extra:
            # a site configuration that defines an element the packaged one lacks (DE11), used in every record
            for i, row in enumerate(rows):
                row['DE11'] = '%06d' % (i + 1)
            cols_used = cols[:3] + ['DE11'] + cols[3:]
        text = to_csv(rows, cols_used)
        res = {'tid': tid, 'enc': enc, 'blocked': blocked, 'kind': 'ok', 'rin': [prow(x) for x in rows], 'rout': [],
               '_desc': '%d rows, %s, %s%s' % (n, enc, '1014' if blocked else 'vbs', ', via cli_run on real files' if via_cli else ''),
               '_raw': None}
        try:
            with drv.Env('csv', tid, n, enc), drv.Watchdog(60.0), (contextlib.nullcontext() if drv.THREADED else contextlib.redirect_stdout(io.StringIO())):
                if via_cli:
                    p = os.path.join(wd, 'c20-%d-%d.csv' % (os.getpid(), tid))
                    drv.spit(p, text, 'w', newline='')
                    kwcfg = {}
                    if site_extra:
                        import copy
                        import json
                        cfg2 = copy.deepcopy(cfg)
                        cfg2['bit_config']['11'] = {'field_name': 'System trace audit number', 'field_type': 'FIXED', 'field_length': 6}
                        cfg2['output_data_elements'] = cols_used
                        with open(p + '.json', 'w') as fh:
                            json.dump(cfg2, fh)
                        kwcfg = {'config_file': p + '.json'}
                    if tid % 15 == 0:
                        # a site configuration file with the packaged content, keys in json sort_keys order
                        import json
                        json.dump(cfg, open(p + '.json', 'w'), sort_keys=True)
                        kwcfg = {'config_file': p + '.json'}
                    if tid % 10 == 5:
                        # CSV text encoding given, IPM encoding left to its default (latin_1) on both commands
                        enc = res['enc'] = 'latin_1'
                        drv.spit(p, text, 'w', newline='', encoding='utf-8')
                        mci_csv_to_ipm.cli_run(in_filename=p, out_filename=p + '.ipm', in_encoding='utf-8',
                                               no1014blocking=not blocked)
                        ipm = drv.slurp(p + '.ipm')
                        rc = mci_ipm_to_csv.cli_run(in_filename=p + '.ipm', out_filename=p + '.out.csv', out_encoding='utf-8',
                                                    no1014blocking=not blocked)
                    else:
                        mci_csv_to_ipm.cli_run(in_filename=p, out_filename=p + '.ipm', out_encoding=enc, no1014blocking=not blocked, **kwcfg)
                        ipm = drv.slurp(p + '.ipm')
                        rc = mci_ipm_to_csv.cli_run(in_filename=p + '.ipm', out_filename=p + '.out.csv', in_encoding=enc,
                                                    no1014blocking=not blocked, **kwcfg)
                    if rc == -1:
                        raise RuntimeError('mci_ipm_to_csv reported an error')
                    outtext = drv.slurp(p + '.out.csv', 'r', newline='', encoding='utf-8' if tid % 10 == 5 else None)
                    for q in (p, p + '.ipm', p + '.out.csv', p + '.json'):
                        if os.path.exists(q):
                            os.unlink(q)
                else:
                    f = drv.new_file()
                    mci_csv_to_ipm.mci_csv_to_ipm(io.StringIO(text, newline=''), f, cfg, out_encoding=enc, no1014blocking=not blocked)
                    ipm = f.getvalue()
                    o = io.StringIO(newline='')
                    mci_ipm_to_csv.mci_ipm_to_csv(drv.new_file(ipm), o, cfg, in_encoding=enc, no1014blocking=not blocked)
                    outtext = o.getvalue()
            res['rout'] = [prow(x) for x in csv.DictReader(io.StringIO(outtext, newline=''))]
            if site_extra:
                out.append(res)          # (judged on its rows only: the IPM-level trace is under the packaged configuration)
                continue
            ev = [ipmc.iev(1, 'write', m=row) for row in rows] + [ipmc.iev(1, 'fin'), ipmc.iev(1, 'file', b=ipm)]
            # the whole output CSV: every data row must be the configured output columns of the reading of its record
            for x in csv.DictReader(io.StringIO(outtext, newline='')):
                e = ipmc.iev(1, 'csvrow')
                e['d'] = [{'k': isoc.pkey(k), 'v': isoc.pval(v)} for k, v in x.items() if v not in ('', None)]
                ev.append(e)
            ev.append(ipmc.iev(1, 'csvend'))
            if tid % 4 == 1 and enc in ('latin_1', 'cp500') and not drv.THREADED:
                # the legacy extractor (mideu extract) on the same IPM file: its CSV is judged by the same clause
                from cardutil.cli import mideu
                q = os.path.join(wd, 'c20m-%d-%d.ipm' % (os.getpid(), tid))
                drv.spit(q, ipm)
                try:
                    with contextlib.redirect_stdout(io.StringIO()):
                        mideu.extract(config=cfg, input=q, sourceformat='ebcdic' if enc == 'cp500' else 'ascii',
                                      no1014blocking=not blocked, csvoutputfile=q + '.csv')
                    mtext = drv.slurp(q + '.csv', 'r', newline='', encoding='utf8')
                finally:
                    for z in (q, q + '.csv'):
                        if os.path.exists(z):
                            os.unlink(z)
                ev.append(ipmc.iev(1, 'given', b=ipm))
                for x in csv.DictReader(io.StringIO(mtext, newline='')):
                    e = ipmc.iev(1, 'csvrow')
                    e['d'] = [{'k': isoc.pkey(k), 'v': isoc.pval(v)} for k, v in x.items() if v not in ('', None)]
                    ev.append(e)
                ev.append(ipmc.iev(1, 'csvend'))
            res['ipmtrace'] = {'tid': 0, 'loc': False, 'strict': True, 'cols': [isoc.pkey(c) for c in cols], 'insts': [{'blk': blocked}],
                               'events': ev, '_desc': res['_desc'] + ' [IPM file in the middle and the output CSV]'}
        except BaseException as ex:  # noqa
            res['kind'] = 'exc'
            res['_raw'] = drv.exc_outcome(ex)
        out.append(res)
    return out


def run(rep, wd, tier, seed):
    rep.assumptions += ['TLC 1.8 evaluates the TLA+ text correctly',
                        'CSV quoting is the standard library\'s csv module on both sides (trusted base)',
                        'dateutil/fromisoformat parse YYYY-MM-DD hh:mm:ss as the specification\'s IsoDt']
    n = 420 if tier == 'thorough' else 60
    outs = isocheck._pool(_drive, [(seed, wd, p) for p in core.split(list(range(n)), core.NCPU)])
    # four threads at once, each converting its own table (function entry points: ids that are not multiples of 5)
    tids = [t for t in range(1001, 1001 + 60) if t % 5][:40]
    touts = isocheck.threaded('harness.c20', '_drive', [(seed, wd, tids[k::8]) for k in range(8)], procs=2)
    for o in touts:
        for x in o:
            x['_desc'] += ' [4 threads at once, each on its own objects]'
    outs = outs + touts
    results = [x for o in outs for x in o]
    traces = []
    groups = {}
    for res in results:
        t = {'tid': len(traces), 'kind': res['kind'], 'rin': res['rin'], 'rout': res['rout'], '_desc': res['_desc'], '_raw': res['_raw']}
        traces.append(t)
        if 'ipmtrace' in res:
            g = groups.setdefault(res['enc'], [])
            res['ipmtrace']['tid'] = len(g)
            g.append(res['ipmtrace'])

    def describe(t, rj):
        bad = None
        if rj[3] == 'supplied-cell-changed':
            for i, (a, b) in enumerate(zip(t['rin'], t['rout'])):
                bo = {c['name']: c['text'] for c in b}
                for c in a:
                    if bo.get(c['name'], []) != c['text']:
                        bad = {'row': i + 1, 'column': c['name'], 'in': ''.join(map(chr, c['text'])),
                               'out': ''.join(map(chr, bo.get(c['name'], [])))}
                        break
                if bad:
                    break
        return {'case': t['_desc'], 'clause': rj[3], 'rows_in': len(t['rin']), 'rows_out': len(t['rout']),
                'first_difference': bad, 'observed': t['_raw']}
    validate_batches(rep, wd, 'Trace_Csv', 'Trace_Csv.cfg', core.split(traces, 8), 'csv', describe)
    ipmc.validate(rep, wd, [(('pkg',), enc, ts) for enc, ts in groups.items()], owner, 'csvipm', maxbatch=6)
    rep.extra['tables'] = len(results)
    rep.extra['rows'] = sum(len(x['rin']) for x in results)
    rep.extra['columns_used'] = sorted({c['name'] for x in results for row in x['rin'] for c in row})
    rep.sample({'table': results[1]['_desc'], 'first_row': {c['name']: ''.join(map(chr, c['text'])) for c in results[1]['rin'][0]}})
    rep.replayed += len(results)
    # which configuration file the commands use (columns, layouts): spec/ToolConfig.tla, 16 environments on get_config
    from . import x01
    was = rep.exhaustive
    x01.run(rep, wd, tier, seed)
    rep.exhaustive = was


def replay(rep, wd, payload):
    import sys
    core.generic_replay(sys.modules[__name__], rep, wd, payload)
