"""C06 - IPM file round trip: messages written are the messages read back; instances do not influence each other.

0. TLC exhaustive (MC_Ipm): the composition Layout ; Frame ; Blocks and unblock ; records ; Reading at the model level -
   every list of up to 2 (thorough 3) messages over a small universe, blocked (both block counts) and unblocked, and every
   cut of every such file.
1. TLC enumerates every interleaving of 2 writers and 2 readers (IpmMulti; quick: simulation sample, thorough: all
   25,200 schedules of programs 3,3,2,2); each schedule is replayed on real instances created up front, and the
   recorded interleaved execution is validated by Trace_Ipm, each instance against its own specification state.
2. Round trip at size: lists of 1..400 heterogeneous well-formed messages (records up to the maximum length via
   DE72/PDS) x {latin_1, cp500, cp037} x {VBS, 1014} x {packaged, generated configuration}: written by the real
   IpmWriter, file bytes judged against Frame/Finals of the encoded messages, read back by the real IpmReader and every
   yielded dict judged against Reading of its record (TLC, Trace_Ipm).
"""
import io
import os
import re

from . import core, drv, isoc, isocheck, ipmc
from .c04 import write_cfg
from .isoc import PKG

from cardutil import mciipm


def owner(clause):
    return True


def schedules(rep, wd, tier, seed):
    prog = (3, 3, 2, 2)
    cfg = write_cfg(os.path.join(wd, 'IpmMulti.cfg'), 'CONSTANTS N1 = %d N2 = %d N3 = %d N4 = %d\nSPECIFICATION Spec\nINVARIANT ProjInv\n'
                    'CHECK_DEADLOCK FALSE\n' % prog)
    lines = []
    if tier == 'thorough':
        res = core.run_tlc('IpmMulti', cfg, wd, workers=1, timeout=3000, line_cb=lines.append)
    else:
        res = core.run_tlc('IpmMulti', cfg, wd, workers=1, timeout=600, line_cb=lines.append,
                           simulate='num=600', extra=['-depth', str(sum(prog)), '-seed', str(seed + 1)])
    if not res.ok:
        raise core.MachineryError('IpmMulti failed:\n' + res.stdout[-2000:])
    rep.add_tlc('IpmMulti schedules (%s)' % ('exhaustive' if tier == 'thorough' else 'simulation sample'), res)
    out = set()
    for line in lines:
        m = re.match(r'<<"B", <<([0-9, ]+)>>>>', line.strip())
        if m:
            out.add(tuple(int(x) for x in m.group(1).split(',')))
    return prog, sorted(out)


def _drive_sched(args):
    seed, scheds, lo = args
    bc = PKG['bit_config']
    enc = 'latin_1'
    out = []
    for si, sched in enumerate(scheds):
        r = drv.rng(seed, 'sched', lo + si)
        blk = [bool(((lo + si) >> i) & 1) for i in range(4)]     # every combination of blocked / unblocked instances
        # files for the two readers, written beforehand (not part of the trace)
        rfiles = []
        for i in (2, 3):
            msgs = [isoc.gen_message(drv.rng(seed, 'rf', lo + si, i, j), bc, isoc.SAFE, maxbits=6) for j in range(2)]
            if (lo + si) % 5 == i:      # a reader that hits a bad record: its error must not leak into the other reader
                data = bytearray(ipmc.write_file(msgs, enc, bc, blk[i]))
                data[6:7] = b'x'
                rfiles.append(bytes(data))
            else:
                rfiles.append(ipmc.write_file(msgs, enc, bc, blk[i]))
        # all instances are created up front
        wf = [drv.new_file(), drv.new_file()]
        ws = [mciipm.IpmWriter(wf[i], encoding=enc, iso_config=bc, blocked=blk[i]) for i in (0, 1)]
        rs = [mciipm.IpmReader(drv.new_file(rfiles[i]), encoding=enc, iso_config=bc, blocked=blk[2 + i]) for i in (0, 1)]
        events = [ipmc.iev(3, 'given', b=rfiles[0]), ipmc.iev(4, 'given', b=rfiles[1])]
        pc = [0, 0, 0, 0]
        dead = [False] * 4
        for inst in sched:
            i = inst - 1
            pc[i] += 1
            if i < 2:
                if pc[i] <= 2:
                    m = isoc.gen_message(drv.rng(seed, 'wm', lo + si, i, pc[i]), bc, isoc.SAFE, maxbits=6)
                    ws[i].write(dict(m))
                    events.append(ipmc.iev(inst, 'write', m=m))
                else:
                    ws[i].close()
                    events.append(ipmc.iev(inst, 'fin'))
                    events.append(ipmc.iev(inst, 'file', b=wf[i].getvalue()))
                    # read the finished file back with a fresh reader while the others are still active
                    events += [dict(e, inst=inst) for e in ipmc.read_all_events(inst, wf[i].getvalue(), enc, bc, blk[i])]
            else:
                if dead[i]:
                    continue
                e, k = ipmc.next_event(inst, rs[i - 2])
                events.append(e)
                dead[i] = k != 'rec'
        for e in events:
            e.pop('_exc', None)
        out.append({'tid': si, 'loc': True, 'strict': True, 'cols': [], 'insts': [{'blk': b} for b in blk], 'events': events,
                    '_desc': 'schedule %s (instances 1,2 writers, 3,4 readers; blocked=%s)' % (list(sched), blk)})
    return out


def _drive_files(args):
    seed, cfgspec, codec, ids = args
    bc = isocheck.get_config(cfgspec)
    alpha = isoc.alphabet(codec)
    out = []
    for tid in ids:
        r = drv.rng(seed, 'c06file', cfgspec, codec, tid)
        if tid % 3 == 0:
            drv.hazard(r)
        blocked = bool(tid & 1)
        n = r.choice((1, 2, 3, 7, 15, 40)) if tid % 11 else r.choice((150, 400))
        msgs = []
        for j in range(n):
            m = isoc.gen_message(r, bc, alpha, maxbits=r.choice((2, 5, 10)) if n > 50 else r.choice((3, 8, 20, 40)))
            msgs.append(m)
        if cfgspec[0] in ('pkg', 'pkgvar') and tid % 3 == 2:
            # the shape of a real clearing file: header (1644/697), presentments, trailer (1644/695) - and a second batch
            # behind the first trailer, or the trailer in the middle of a long file
            hdr = {'MTI': '1644', 'DE24': '697', 'DE71': 1}
            trl = {'MTI': '1644', 'DE24': '695', 'DE71': len(msgs) + 2}
            k = max(1, len(msgs) // 2)
            msgs = [hdr] + msgs[:k] + [trl] + [dict(hdr, DE71=len(msgs) + 3)] + msgs[k:] + [dict(trl, DE71=2 * len(msgs) + 4)]
            n = len(msgs)
        template = tid % 5 == 4
        if template:
            # a caller that keeps ONE dictionary per kind of message and changes values in place between writes (the
            # dictionary still holds whatever the library added to it during the previous write): every message with
            # PDS entries that fit one carrier is followed by a same-shaped one with other values of the same lengths
            msgs2 = []
            for m in msgs:
                msgs2.append(m)
                pk = [k for k in m if isinstance(k, str) and k.startswith('PDS') and isinstance(m[k], str)]
                if pk and sum(7 + len(m[k]) for k in pk) <= 900 and not any(str(k).startswith('DE') and isinstance(m[k], str) and len(m[k]) > 900 for k in m):
                    m2 = dict(m)
                    vals = [m[k] for k in pk]
                    for k, v in zip(pk, vals):
                        m2[k] = v[::-1] if v[::-1] != v else v
                    same = [i for i in range(len(pk)) for j in range(i + 1, len(pk)) if len(vals[i]) == len(vals[j])]
                    if len(pk) > 1 and len(vals[0]) == len(vals[-1]):
                        m2[pk[0]], m2[pk[-1]] = m2[pk[-1]], m2[pk[0]]
                    msgs2.append(m2)
            msgs = msgs2
            n = len(msgs)
        f = drv.new_file()
        header = b''
        if tid % 4 >= 2 and not drv.THREADED:
            header = drv.HEADERS[tid % 3]        # the writer is handed the file positioned behind a header the caller wrote
            f.write(header)
        events = []
        try:
            if cfgspec[0] == 'pkgvar' and (tid % 2 or tid == ids[0]):
                # another writer with the packaged carrier assignment is used in this process just before (for the
                # first file of a job: before this configuration has ever been used in the process)
                w0 = mciipm.IpmWriter(io.BytesIO(), encoding=codec, blocked=blocked)
                w0.write({'MTI': '1240', 'PDS0001': 'other writer'})
                w0.close()
            if cfgspec[0] == 'pkg' and (tid % 2 or tid == ids[0]):
                # ... and the other way round: same element numbers, another carrier assignment, used just before
                w0 = mciipm.IpmWriter(io.BytesIO(), encoding=codec, iso_config=isocheck.get_config(('pkgvar', 0)), blocked=blocked)
                w0.write({'MTI': '1240', 'PDS0001': 'other writer', 'DE48': 'plain text here'})
                w0.close()
            w = mciipm.IpmWriter(f, encoding=codec, iso_config=bc, blocked=blocked)
            if tid % 3 == 1:
                w.write_many(dict(m) for m in msgs)          # the convenience entry point
                events += [ipmc.iev(1, 'write', m=m) for m in msgs]
            else:
                t = None
                for m in msgs:
                    drv.yield_point()
                    if template and t is not None and set(m) <= set(t) and all(k in m or k in ('DE48', 'DE62', 'DE123', 'DE124', 'DE125') for k in t):
                        t.update(m)              # the same dictionary object again, values changed in place
                    else:
                        t = dict(m)
                    w.write(t)
                    events.append(ipmc.iev(1, 'write', m=m))
            w.close()
        except BaseException as ex:  # noqa
            events.append(ipmc.iev(1, 'next', out='exc', n=-1))
            events[-1]['_observed'] = drv.exc_outcome(ex)
            out.append({'tid': tid, 'loc': True, 'strict': True, 'cols': [], 'insts': [{'blk': blocked}], 'events': events,
                        '_desc': 'writer raised on a well-formed message list'})
            continue
        data = f.getvalue()
        if header and data[:len(header)] == header:
            data = data[len(header):]
        events.append(ipmc.iev(1, 'fin'))
        events.append(ipmc.iev(1, 'file', b=data))
        events += ipmc.read_all_events(1, data, codec, bc, blocked)
        for e in events:
            e.pop('_exc', None)
        out.append({'tid': tid, 'loc': True, 'strict': True, 'cols': [], 'insts': [{'blk': blocked}], 'events': events,
                    '_desc': '%d messages, %s, %s, file of %d bytes%s' % (n, codec, '1014' if blocked else 'vbs', len(data),
                                                                       ' written behind a %d-byte header' % len(header) if header else '')})
    return out


def _drive_sizes(args):
    """record-size sweep: a first record of every size in windows around the block boundaries (its end, or the
    reader's refill point, falls on / next to a 1012-byte payload boundary), followed by small records"""
    seed, codec, sizes = args
    bc = PKG['bit_config']
    out = []
    for tid, n in enumerate(sizes):
        blocked = True
        msgs = [isoc.message_exact(n, codec), {'MTI': '1240', 'DE3': '000001'}, isoc.message_exact(60 + n % 40, codec)]
        if n % 3 == 0:
            msgs.insert(0, {'MTI': '1240', 'DE3': '999999', 'DE2': '5' * (n % 17 + 1)})
        f = drv.new_file()
        w = mciipm.IpmWriter(f, encoding=codec, iso_config=bc, blocked=blocked)
        events = []
        for m in msgs:
            w.write(dict(m))
            events.append(ipmc.iev(1, 'write', m=m))
        w.close()
        data = f.getvalue()
        events += [ipmc.iev(1, 'fin'), ipmc.iev(1, 'file', b=data)] + ipmc.read_all_events(1, data, codec, bc, blocked)
        for e in events:
            e.pop('_exc', None)
        out.append({'tid': tid, 'loc': True, 'strict': True, 'cols': [], 'insts': [{'blk': blocked}], 'events': events,
                    '_desc': 'blocked %s file whose %s record is %d bytes' % (codec, 'second' if n % 3 == 0 else 'first', n)})
    return out


def model_check(rep, wd, tier):
    """MC_Ipm: the composition Layout ; Frame ; Blocks / unblock ; records ; Reading at the model level (small P)"""
    import json
    cfg = {'1': {}, '2': {'field_type': 'LLVAR', 'field_length': 0}, '3': {'field_type': 'FIXED', 'field_length': 2},
           '4': {'field_type': 'FIXED', 'field_length': 3, 'field_python_type': 'int'},
           '48': {'field_type': 'LLLVAR', 'field_length': 0, 'field_processor': 'PDS'}}
    uni = [{'MTI': '1240', 'DE3': '@@'}, {'MTI': '1240', 'DE2': '\x00\x00\x00\x00', 'DE4': 0},
           {'MTI': '1644', 'DE2': '@', 'DE3': 'AB', 'PDS0001': '@@'}, {'MTI': '1740'}]
    consts = isoc.consts(cfg, 'latin_1')
    path = os.path.join(wd, 'mcipm.json')
    json.dump({'consts': consts, 'traces': [], 'universe': [isoc.pdict(m) for m in uni]}, open(path, 'w'))
    c = write_cfg(os.path.join(wd, 'MC_Ipm.cfg'), 'CONSTANTS P = %d T = 2 PAD = 64 MaxLen = 6000 MaxMsgs = %d\nSPECIFICATION Spec\n'
                  'INVARIANT WellFormedUniverse\nINVARIANT ComposeInv\nINVARIANT CutInv\nCHECK_DEADLOCK FALSE\n' % ((7, 4) if tier == 'thorough' else (11, 3)))
    res = core.run_tlc('MC_Ipm', c, wd, env={'TRACE_FILE': path}, workers=core.NCPU, timeout=3000)
    core.require_ok(res, 'MC_Ipm')
    rep.add_tlc('MC_Ipm exhaustive (composition at the model level)', res)


def run(rep, wd, tier, seed):
    rep.assumptions += ['TLC 1.8 evaluates the TLA+ text correctly', 'file objects: in-memory buffers, real files, pipes-like streams, gzip file objects (harness/drv.py)']
    model_check(rep, wd, tier)
    prog, scheds = schedules(rep, wd, tier, seed)
    rep.extra['schedules_replayed'] = len(scheds)
    rep.replayed += len(scheds)
    parts = core.split(scheds, core.NCPU)
    lo = 0
    jobs = []
    for p in parts:
        jobs.append((seed, p, lo))
        lo += len(p)
    outs = isocheck._pool(_drive_sched, jobs)
    straces = []
    for o in outs:
        for t in o:
            t['tid'] = len(straces)
            straces.append(t)
    rep.sample({'behaviour': straces[0]['_desc'], 'events': [(e['inst'], e['op'], e['out']) for e in straces[0]['events']][:14]})
    ipmc.validate(rep, wd, [(('pkg',), 'latin_1', straces)], owner, 'isolation', maxbatch=80)
    # round trip at size
    nfiles = 240 if tier == 'thorough' else 33
    jobs = []
    cfgs = (('pkg',), ('gen', 600 + seed), ('pkgvar', 0))
    k = 0
    for cfgspec in cfgs:
        for codec in isocheck.CODECS_QUICK:
            ids = list(range(k, k + nfiles // 9 + 1))
            k += len(ids)
            for part in core.split(ids, 3):
                jobs.append((seed, cfgspec, codec, part))
    outs = isocheck._pool(_drive_files, jobs)
    # four threads at once, each writing and reading its own files under its own configuration and code page
    tjobs = [(seed, cfgspec, codec, [1000 + 3 * i, 1001 + 3 * i, 1002 + 3 * i])
             for i, (cfgspec, codec) in enumerate([(('pkg',), 'latin_1'), (('gen', 600 + seed), 'cp500'), (('pkg',), 'cp037'), (('pkgvar', 0), 'latin_1'),
                                                   (('pkg',), 'cp500'), (('gen', 600 + seed), 'latin_1'), (('pkgvar', 0), 'cp500'), (('pkg',), 'latin_1')])]
    jobs = jobs + tjobs
    outs = outs + isocheck.mark_threaded(isocheck.threaded('harness.c06', '_drive_files', tjobs, procs=2))
    # two files written / read in lock-step (the turn changes at every message and every transfer)
    ljobs = [(j[0], j[1], j[2], [x + 500 for x in j[3]]) for j in tjobs]
    jobs = jobs + ljobs
    outs = outs + isocheck.lockstep('harness.c06', '_drive_files', ljobs, procs=4)
    sizes = sorted({1012 * k + d for k in (1, 2, 3, 4, 5) for d in range(-14, 12) if 40 <= 1012 * k + d <= 5990})
    if tier == 'thorough':
        sizes = list(range(40, 5991, 1))[::3] + sizes
    sjobs = [(seed, ('latin_1', 'cp500')[i % 2], part) for i, part in enumerate(core.split(sizes, core.NCPU))]
    souts = isocheck._pool(_drive_sizes, sjobs)
    rep.extra['record_size_sweep'] = len(sizes)
    groups = {}
    for j, o in zip(sjobs, souts):
        g = groups.setdefault((('pkg',), j[1]), [])
        for t in o:
            t['tid'] = len(g)
            g.append(t)
    for j, o in zip(jobs, outs):
        g = groups.setdefault((j[1], j[2]), [])
        for t in o:
            t['tid'] = len(g)
            g.append(t)
    glist = [(k2[0], k2[1], v) for k2, v in groups.items()]
    rep.extra['files_round_tripped'] = sum(len(g[2]) for g in glist)
    rep.sample({'trace': glist[0][2][0]['_desc']})
    rep.sample({'trace': max((t for g in glist for t in g[2]), key=lambda t: len(t['events']))['_desc']})
    ipmc.validate(rep, wd, glist, owner, 'ipmfile', maxbatch=8)


def replay(rep, wd, payload):
    import sys
    core.generic_replay(sys.modules[__name__], rep, wd, payload)
