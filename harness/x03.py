"""X03 (specification growth, DESIGN 8.7): spec/Scratch.tla - why "several threads, each on its own objects" is a
dimension of every check.  TLC proves Isolation (and termination) for per-call work areas, exhibits the three-step
counterexample for one shared work area, and shows that a single thread cannot tell the two apart.  The conformance
side is isocheck.threaded (used by every registered check).  Not registered in MANIFEST."""
from . import core


def run(rep, wd, tier, seed):
    res = core.run_tlc('MC_Scratch', 'MC_Scratch_private.cfg', wd, workers=2)
    core.require_ok(res, 'MC_Scratch private work areas', min_states=50)
    rep.add_tlc('MC_Scratch private work areas: Isolation, Finishes', res)
    res = core.run_tlc('MC_Scratch', 'MC_Scratch_single.cfg', wd, workers=1)
    core.require_ok(res, 'MC_Scratch one thread, shared work area', min_states=5)
    rep.add_tlc('MC_Scratch one thread with a shared work area: Isolation, Finishes', res)
    res = core.run_tlc('MC_Scratch', 'MC_Scratch_shared.cfg', wd, workers=1, expect_fail=True)
    if res.ok or 'Invariant Isolation is violated' not in res.stdout:
        raise core.MachineryError('the shared work area did not produce the Isolation counterexample:\n' + res.stdout[-1500:])
    rep.add_tlc('MC_Scratch shared work area: Isolation violated after Fill(1), Fill(2), Use(1) (expected)', res)
    rep.sample({'design_counterexample': 'Fill(1), Fill(2), Use(1): thread 1 hands on thread 2\'s data'})
    # round 9: the fixed lock-step schedule of ONE caller with two objects (ScratchLockstep.tla) - a single behaviour
    res = core.run_tlc('MC_ScratchLockstep', 'MC_ScratchLockstep_private.cfg', wd, workers=1)
    core.require_ok(res, 'ScratchLockstep private work areas', min_states=11)
    rep.add_tlc('ScratchLockstep private work areas: one behaviour of 11 states, Isolation, LFinishes', res)
    res = core.run_tlc('MC_ScratchLockstep', 'MC_ScratchLockstep_shared.cfg', wd, workers=1, expect_fail=True)
    if res.ok or 'Invariant Isolation is violated' not in res.stdout:
        raise core.MachineryError('the shared work area did not produce the lock-step counterexample:\n' + res.stdout[-1500:])
    rep.add_tlc('ScratchLockstep shared work area: Isolation violated in the third step of the only behaviour (expected)', res)
    rep.exhaustive = True


def replay(rep, wd, payload):
    run(rep, wd, 'quick', 0)
