"""Corpus runner for the ISO8583 checks (C01, C02, C07, C08, C12, C16): drive the real dumps/loads in worker
processes, validate the recorded calls with Trace_Iso (one TLC per batch, batches of one (configuration, codec))."""
import collections
import os
from concurrent.futures import ProcessPoolExecutor, ThreadPoolExecutor

from . import core, drv, isoc
from .isoc import PKG

CODECS_QUICK = ('latin_1', 'cp500', 'cp037')
CODECS_EXTRA = ('ascii',)          # a single-byte codec that does not define every byte (binary ICC data must still pass)


def single_byte_codecs():
    """every single-byte codec of the interpreter that can encode the ten digits and space (thorough tier)."""
    import encodings.aliases
    names = sorted(set(encodings.aliases.aliases.values()))
    out = []
    for n in names:
        try:
            if len('0'.encode(n)) != 1 or len(bytes(range(256)).decode(n, errors='replace')) != 256:
                continue
            '0123456789 '.encode(n)
            tbl = isoc.codec_table(n)
            # the decoder must be the inverse of the encoder on its range (stateless single-byte)
            ok = all(chr(c).encode(n) == bytes([b]) for b, c in enumerate(tbl) if c >= 0)
            if ok and sum(1 for c in tbl if c >= 0) >= 96:
                out.append(n)
        except Exception:
            continue
    return out


def gen_config(seed):
    """A generated field configuration over bits 2..128 (types rotating, every processor placed)."""
    r = drv.rng(seed, 'gen-config')
    cfg = {'1': {'field_name': 'Bitmap secondary', 'field_type': 'FIXED', 'field_length': 8}}
    bits = list(range(2, 129))
    r.shuffle(bits)
    ncar = r.randrange(1, 6)
    special = {}
    for i in range(ncar):
        special[bits.pop()] = {'field_type': 'LLLVAR', 'field_length': 0, 'field_processor': 'PDS'}
    special[bits.pop()] = {'field_type': 'LLLVAR', 'field_length': 255, 'field_processor': 'ICC'}
    special[bits.pop()] = {'field_type': 'LLVAR', 'field_length': 0, 'field_processor': 'DE43',
                           'field_processor_config': isoc.DE43_REGEX}
    special[bits.pop()] = {'field_type': r.choice(('LLVAR', 'LLLVAR')), 'field_length': 0, 'field_processor': 'PAN'}
    special[bits.pop()] = {'field_type': r.choice(('LLVAR', 'LLLVAR')), 'field_length': 0, 'field_processor': 'PAN-PREFIX'}
    fmts = ('%y%m%d', '%y%m%d%H%M%S', '%Y%m%d', '%Y%m%d%H%M%S', '%y%m%d%H%M')
    for b in range(2, 129):
        if b in special:
            f = special[b]
        elif r.random() < 0.25:
            continue
        else:
            ft = ('FIXED', 'LLVAR', 'LLLVAR')[(b + seed) % 3]
            py = r.choice(('string', 'string', 'string', 'int', 'long', 'datetime', 'decimal'))
            f = {'field_type': ft, 'field_length': r.choice((1, 2, 3, 4, 6, 8, 12, 15, 24)) if ft == 'FIXED' else r.choice((0, 0, 11))}
            if py != 'string':
                f['field_python_type'] = py
            if py == 'datetime':
                fmt = r.choice(fmts)
                f['field_date_format'] = fmt
                if ft == 'FIXED':
                    f['field_length'] = sum(4 if c == 'Y' else 2 for c in isoc.parse_fmt(fmt))
            if py == 'decimal':     # a decimal needs a configured width (also in a variable-length element)
                f['field_length'] = r.choice((6, 8, 12, 40))
            if py in ('int', 'long') and ft != 'FIXED':
                f['field_length'] = r.choice((0, 4, 9))
        f = dict(f)
        if 'field_python_type' not in f and (b + seed) % 3 == 0:
            f['field_python_type'] = 'string'          # the documented default written out (also on the binary ICC element)
        f['field_name'] = 'generated %d' % b
        cfg[str(b)] = f
    return cfg


def pkg_variant(k):
    """the packaged configuration with the SAME element numbers but a different assignment of the PDS carriers:
    k = 0: element 48 is plain text (carriers 62, 123, 124, 125); k = 1: only 62 and 125 are carriers"""
    import copy
    bc = copy.deepcopy(PKG['bit_config'])
    drop = ('48',) if k == 0 else ('48', '123', '124')
    for b in drop:
        bc[b].pop('field_processor', None)
    return bc


def pkg_shuffled(k):
    """the packaged configuration, same content, other key order: k = 0 string-sorted keys (json.dump(sort_keys=True)),
    k = 1 descending, k = 2 a low element moved to the end"""
    bc = PKG['bit_config']
    keys = list(bc)
    if k == 0:
        keys = sorted(keys)
    elif k == 1:
        keys = sorted(keys, key=int, reverse=True)
    else:
        keys = [x for x in keys if x not in ('3', '48')] + ['48', '3']
    return {x: bc[x] for x in keys}


def pkg_explicit():
    """the packaged configuration with the default python type "string" written out on every element that has none"""
    import copy
    bc = copy.deepcopy(PKG['bit_config'])
    for b, f in bc.items():
        if b != '1' and 'field_python_type' not in f:
            f['field_python_type'] = 'string'
    return bc


def get_config(spec):
    if spec[0] == 'pkg':
        return PKG['bit_config']
    if spec[0] == 'pkgstr':
        return pkg_explicit()
    if spec[0] == 'pkgshuf':
        return pkg_shuffled(spec[1])
    if spec[0] == 'pkgvar':
        return pkg_variant(spec[1])
    if spec[0] == 'gen':
        return gen_config(spec[1])
    raise ValueError(spec)


def _pool(fn, jobs, n=None):
    if not jobs:
        return []
    with ProcessPoolExecutor(min(n or core.NCPU, len(jobs))) as ex:
        return list(ex.map(fn, jobs))


def _thread_runner(args):
    """one pool process: `nthreads` threads drive the library at the same time, each on its OWN jobs and objects"""
    import importlib
    import sys
    import threading
    modname, fnname, jobs, nthreads, switch = args[:5]
    lockstep = len(args) > 5 and args[5]
    baton = drv.Baton() if lockstep else None
    fn = getattr(importlib.import_module(modname), fnname)
    drv.THREADED = True
    old = sys.getswitchinterval()
    sys.setswitchinterval(switch)
    results = [None] * len(jobs)
    errors = []
    start = threading.Barrier(nthreads)

    def work(k):
        start.wait()
        if baton is not None:
            drv._TL.baton = (baton, k)
            baton.begin(k)
        try:
            _work(k)
        finally:
            if baton is not None:
                baton.done(k)
                drv._TL.baton = None

    def _work(k):
        for i in range(k, len(jobs), nthreads):
            try:
                results[i] = fn(jobs[i])
            except BaseException as ex:  # noqa
                import traceback
                errors.append(traceback.format_exc()[-1500:])
                results[i] = None
    ts = [threading.Thread(target=work, args=(k,), daemon=True) for k in range(nthreads)]
    for t in ts:
        t.start()
    for t in ts:
        t.join(900)
    sys.setswitchinterval(old)
    drv.THREADED = False
    if any(t.is_alive() for t in ts):
        errors.append('a harness thread did not finish within 900 s')
    return results, errors


class ThreadedHang(Exception):
    """a pool process that drives the library from several threads did not come back: a call that never returns inside
    a thread cannot be interrupted from inside the process (no signal-based watchdog there)"""


def lockstep(modname, fnname, jobs, procs=None, limit=300):
    """The jobs driven by two threads in strict alternation (drv.Baton): job 2i and job 2i+1 are alive at the same time,
    each on its own files and library objects, and the turn changes at every operation of either history."""
    outs = threaded(modname, fnname, jobs, nthreads=2, switch=0.005, procs=procs or max(1, min(core.NCPU // 2, len(jobs) // 2)),
                    limit=limit, lockstep=True)
    for o in outs:
        for t in (o if isinstance(o, list) else [o]):
            if isinstance(t, dict):
                t['_desc'] = str(t.get('_desc')) + ' [two histories in lock-step, each on its own objects]'
    return outs


def threaded(modname, fnname, jobs, nthreads=4, switch=1e-6, procs=None, limit=300, lockstep=False):
    """Run driver `fnname` of module `modname` over `jobs` with several threads at once inside each of a few pool
    processes (thread switches every microsecond).  Every thread works on its own jobs, files and library objects: what
    one thread does may not show in what another records.  Returns the results in job order."""
    if not jobs:
        return []
    procs = procs or max(1, min(core.NCPU // 2, len(jobs) // nthreads))
    groups = [g for g in core.split(list(range(len(jobs))), procs) if g]
    args = [(modname, fnname, [jobs[i] for i in g], min(nthreads, len(g)), switch, lockstep and len(g) >= 2) for g in groups]
    import concurrent.futures
    ex = ProcessPoolExecutor(len(args))
    futs = [ex.submit(_thread_runner, a) for a in args]
    try:
        outs = [f.result(timeout=limit) for f in futs]
    except concurrent.futures.TimeoutError:
        for p in list(getattr(ex, '_processes', {}).values()):
            try:
                p.kill()
            except Exception:
                pass
        ex.shutdown(wait=False, cancel_futures=True)
        raise ThreadedHang('%s.%s driven from %d threads did not finish within %d s' % (modname, fnname, nthreads, limit))
    ex.shutdown()
    res = [None] * len(jobs)
    for g, (r, errs) in zip(groups, outs):
        if errs:
            raise core.MachineryError('threaded driver %s.%s failed in the harness itself:\n%s' % (modname, fnname, errs[0]))
        for i, x in zip(g, r):
            res[i] = x
    return res


def mark_threaded(outs, n=4):
    for o in outs:
        for t in (o or []):
            t['_desc'] = str(t.get('_desc')) + ' [%d threads at once, each on its own objects]' % n
    return outs


def pool_optimised(modname, fnname, jobs):
    """the same driver in a `python -O` child (assert statements removed from the library)"""
    return pool_flags(modname, fnname, jobs, ('-O',))


def pool_flags(modname, fnname, jobs, flags):
    """the same driver in a child interpreter started with other command-line flags: -O (assert statements removed),
    -bb (str() of bytes and bytes/str comparisons are errors, as in test suites and hardened deployments)"""
    import pickle
    import subprocess
    import sys
    if not jobs:
        return []
    env = dict(os.environ, CARDUTIL_REPO=core.REPO, PYTHONHASHSEED='0')
    p = subprocess.run([sys.executable] + list(flags) + ['-B', '-m', 'harness.optchild', modname, fnname] + list(flags),
                       input=pickle.dumps(jobs), capture_output=True, cwd=core.VERIF, env=env, timeout=3000)
    if p.returncode != 0:
        raise core.MachineryError('python %s child failed: %s' % (' '.join(flags), p.stderr.decode(errors='replace')[-800:]))
    res = pickle.loads(p.stdout)
    if '-O' in flags and not res['optimised']:
        raise core.MachineryError('child interpreter did not run in optimised mode')
    if '-bb' in flags and res['bytes_warning'] < 2:
        raise core.MachineryError('child interpreter did not run with -bb')
    return res['out']


def validate(rep, wd, groups, owner, prefix, maxbatch=700):
    """groups: list of (cfgspec, codec, traces). Runs Trace_Iso per batch; reports owned clauses as violations."""
    batches = []
    for cfgspec, codec, traces in groups:
        if not traces:
            continue
        c = isoc.consts(get_config(cfgspec), codec)
        for part in core.split(traces, max(1, (len(traces) + maxbatch - 1) // maxbatch)):
            batches.append((cfgspec, codec, c, part))

    def one(i):
        cfgspec, codec, c, part = batches[i]
        return core.tlc_batch('Trace_Iso', 'Trace_Iso.cfg', wd, {'consts': c, 'traces': part}, 'iso-%d' % i, workers=1,
                              timeout=3000)
    with ThreadPoolExecutor(core.NCPU) as ex:
        outs = list(ex.map(one, range(len(batches))))
    other = collections.Counter()
    gen = dist = 0
    for (cfgspec, codec, c, part), (acc, rejects, res) in zip(batches, outs):
        gen += res.generated
        dist += res.distinct
        rep.traces += len(part)
        by = {t['tid']: t for t in part}
        for r in rejects:
            t = by[r[1]]
            clause = r[3]
            e = t['events'][min(r[2], len(t['events'])) - 1]
            first = t['events'][0]
            payload = {'case': t.get('_desc'), 'config': list(cfgspec), 'codec': codec, 'hex_bitmap': t['hex'],
                       'event': e['op'], 'clause': clause, 'message': t.get('_m'),
                       'bytes_hex': bytes(x & 255 for x in e['bytes']).hex()[:400], 'observed_kind': e['kind'],
                       'observed': e.get('_observed'), 'result': t.get('_d'),
                       # enough to re-run the calls: ./check <id> --replay <file>
                       'replay': {'first_op': first['op'], 'm': first['m'] if len(first['m']) < 200 else None,
                                  'bytes_hex_full': bytes(x & 255 for x in first['bytes']).hex() if first['op'] == 'loads' and len(first['bytes']) <= 8192 else None,
                                  'secret': first.get('secret', [])}}
            if owner(clause):
                rep.violation('%s:%s%s' % (prefix, clause, t.get('_key', '')), payload)
            else:
                other[clause] += 1
    rep.states += dist
    rep.transitions += gen
    rep.tlc_runs.append({'run': 'Trace_Iso %d batches' % len(batches), 'generated': gen, 'distinct': dist})
    for c, n in other.items():
        rep.notes.append('clause %s failed on %d traces of this corpus; it is judged by another property\'s check' % (c, n))
    return other


def roundtrip_trace(tid, m, bc, codec, hexb, desc, secret=''):
    if tid % 9 == 4:
        drv.hazard(drv.rng(tid, 'hazard', desc))          # unrelated activity in this process; must not matter
    with drv.Env('rt', tid, desc):        # a third of the histories in another environment (drv.Env)
        e1, b = isoc.do_dumps(m, codec, bc, hexb)
        evs = [e1]
        d = None
        if b is not None:
            e2, d = isoc.do_loads(b, codec, bc, hexb, rt=True, secret=secret)
            evs.append(e2)
    return {'tid': tid, 'hex': hexb, 'events': evs, '_desc': desc, '_m': repr(m)[:500],
            '_d': repr(d)[:300] if d is not None else None}


def replay(rep, wd, payload, owner, prefix):
    """re-run the recorded calls of one violation on the working tree and ask TLC again about that single trace"""
    p = payload['payload']
    rp = p.get('replay') or {}
    cfgspec = tuple(p['config'])
    bc = get_config(cfgspec)
    if rp.get('first_op') == 'dumps' and rp.get('m') is not None:
        m = isoc.undict(rp['m'])
        t = roundtrip_trace(0, m, bc, p['codec'], p['hex_bitmap'], 'replay of ' + str(p.get('case')),
                            secret=''.join(chr(c) for c in rp.get('secret') or []))
    elif rp.get('first_op') == 'loads' and rp.get('bytes_hex_full') is not None:
        e, d = isoc.do_loads(bytes.fromhex(rp['bytes_hex_full']), p['codec'], bc, p['hex_bitmap'])
        t = {'tid': 0, 'hex': p['hex_bitmap'], 'events': [e], '_desc': 'replay of ' + str(p.get('case')), '_m': None,
             '_d': repr(d)[:300] if d is not None else None}
    else:
        print('this violation cannot be replayed from its file alone: re-run the full check with VERIF_SEED=%s' % payload.get('seed'))
        return
    for ev in t['events']:
        print('re-executed %s -> %s %s' % (ev['op'], ev['kind'], ev.get('_observed') or ''))
    validate(rep, wd, [(cfgspec, p['codec'], [t])], owner, prefix)
