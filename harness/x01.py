"""X01 (not one of the 20 listed properties; specification growth, DESIGN 8.7): which configuration the command-line
tools use.  TLC enumerates the 16 environments of spec/ToolConfig.tla with the required source; each is replayed on
the real cardutil.cli.get_config with real temporary files and environment variables.
Run with ./check X01 ; it is not registered in MANIFEST.json."""
import json
import os
import tempfile

from . import core, drv  # noqa: F401

from cardutil.cli import get_config


def run(rep, wd, tier, seed):
    res = core.run_tlc('ToolConfig', 'ToolConfig.cfg', wd, workers=1)
    core.require_ok(res, 'ToolConfig', min_states=16)
    rep.add_tlc('ToolConfig (16 environments)', res)
    for t in res.tuples:
        if t[0] != 'B':
            continue
        _, cli_given, cli_exists, env_set, env_has, source = t
        with tempfile.TemporaryDirectory(dir=wd) as d:
            envdir = os.path.join(d, 'envdir')
            os.makedirs(envdir)
            if env_has:
                json.dump({'which': 'env'}, open(os.path.join(envdir, 'cardutil.json'), 'w'))
            cli = os.path.join(d, 'cli.json')
            if cli_exists:
                json.dump({'which': 'cli'}, open(cli, 'w'))
            old = os.environ.pop('X01_CONFIG', None)
            if env_set:
                os.environ['X01_CONFIG'] = envdir
            try:
                got = get_config('cardutil.json', envvar='X01_CONFIG', cli_filename=cli if cli_given else None)
                obs = got.get('which') if 'which' in got else ('pkg' if 'bit_config' in got else '?')
            except BaseException as ex:  # noqa
                obs = 'exc:' + type(ex).__name__
            finally:
                os.environ.pop('X01_CONFIG', None)
                if old is not None:
                    os.environ['X01_CONFIG'] = old
        rep.replayed += 1
        if obs != source:
            rep.violation('tool-config-source', {'cli_given': cli_given, 'cli_exists': cli_exists, 'env_set': env_set,
                                                 'env_has_file': env_has, 'required': source, 'observed': obs})
    rep.sample({'environment': 'cli given+exists, env set+file', 'required': 'cli'})
    rep.exhaustive = True


def replay(rep, wd, payload):
    run(rep, wd, 'quick', 0)
