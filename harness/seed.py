"""Seeded-change bookkeeping (not part of the registered checks).

  python -m harness.seed ingest <Cnn> <X>      confirm /tmp/seed/<Cnn>/out/change_<X>.diff in a fresh scratch worktree
                                               (tests pass with it, demo fails with it and passes without) and keep it
                                               as /verif/seeded/<Cnn>-<X>/
  python -m harness.seed run <Cnn>-<X> [tier]  apply it to /repo, run the check of its property, undo it; record result
  python -m harness.seed runall [tier]         the same for every kept change
"""
import json
import os
import re
import shutil
import subprocess
import sys
import tempfile
import time

VERIF = os.path.dirname(os.path.dirname(os.path.abspath(__file__)))
REPO = '/repo'
PY = '/venv/bin/python'


def sh(cmd, cwd=None, env=None, timeout=1800):
    p = subprocess.run(cmd, shell=True, cwd=cwd, env=env, stdout=subprocess.PIPE, stderr=subprocess.STDOUT, text=True,
                       timeout=timeout)
    return p.returncode, p.stdout


def ingest(pid, x):
    src = '%s/%s/out' % (os.environ.get('SEED_DIR', '/tmp/seed'), pid)
    patch = os.path.join(src, 'change_%s.diff' % x)
    demo = os.path.join(src, 'demo_%s.py' % x)
    notes = os.path.join(src, 'notes_%s.txt' % x)
    assert os.path.exists(patch) and os.path.exists(demo), 'missing deliverables'
    wt = tempfile.mkdtemp(prefix='seedchk-', dir='/tmp')
    os.rmdir(wt)
    rc, out = sh('git -C %s worktree add -q --detach %s HEAD' % (REPO, wt))
    assert rc == 0, out
    env = dict(os.environ, PYTHONPATH=wt)
    ran = []
    try:
        rc, out = sh('%s %s' % (PY, demo), cwd=wt, env=env)
        ran.append('demo on unchanged tree: rc=%d' % rc)
        ok_clean = rc == 0
        rc, out = sh('git apply %s' % patch, cwd=wt)
        assert rc == 0, 'patch does not apply: ' + out
        rc, out = sh('%s -m pytest -q -p no:cacheprovider tests' % PY, cwd=wt, env=env)
        m = re.search(r'(\d+) passed', out)
        tests_ok = rc == 0 and m and int(m.group(1)) == 116
        ran.append('tests with change: %s' % out.strip().splitlines()[-1])
        rc, out2 = sh('%s %s' % (PY, demo), cwd=wt, env=env)
        ran.append('demo with change: rc=%d' % rc)
        fails_with = rc != 0
    finally:
        sh('git -C %s worktree remove --force %s' % (REPO, wt))
        shutil.rmtree(wt, ignore_errors=True)
    verdict = ok_clean and tests_ok and fails_with
    print('%s-%s: demo ok on clean=%s, tests pass with change=%s, demo fails with change=%s -> %s'
          % (pid, x, ok_clean, tests_ok, fails_with, 'KEEP' if verdict else 'REJECT'))
    if not verdict:
        return False
    dst = os.path.join(VERIF, 'seeded', '%s-%s' % (pid, x))
    os.makedirs(dst, exist_ok=True)
    shutil.copy(patch, os.path.join(dst, 'patch.diff'))
    shutil.copy(demo, os.path.join(dst, 'demo.py'))
    meta = {'property': pid, 'origin': os.environ.get('SEED_ORIGIN', 'independent sub-agent given only the property text and a scratch worktree'),
            'needs_to_manifest': open(notes).read().strip()[:1500] if os.path.exists(notes) else '',
            'confirmed': ran, 'repo_head': sh('git -C %s rev-parse --short HEAD' % REPO)[1].strip()}
    json.dump(meta, open(os.path.join(dst, 'meta.json'), 'w'), indent=1)
    return True


def run_copy(name, tier='quick', props=None):
    """like run(), but on a scratch worktree selected with CARDUTIL_REPO (used while /repo is busy with a background
    run); the result is recorded as 'detection_on_copy' and is re-confirmed against /repo itself by run()."""
    d = os.path.join(VERIF, 'seeded', name)
    meta = json.load(open(os.path.join(d, 'meta.json')))
    wt = tempfile.mkdtemp(prefix='seedrun-', dir='/tmp')
    os.rmdir(wt)
    rc, out = sh('git -C %s worktree add -q --detach %s HEAD' % (REPO, wt))
    assert rc == 0, out
    results = {}
    try:
        rc, out = sh('git apply %s' % os.path.join(d, 'patch.diff'), cwd=wt)
        assert rc == 0, out
        for pid in (props or [meta['property']]):
            t0 = time.time()
            env = dict(os.environ, CARDUTIL_REPO=wt)
            rc, out = sh('./check %s --tier %s' % (pid, tier), cwd=VERIF, env=env, timeout=7200)
            keys = sorted(set(re.findall(r'clause=(\S+)', out)))
            results[pid] = {'exit': rc, 'violation_lines': out.count('VIOLATION property='), 'clauses': keys[:8],
                            'wall_s': round(time.time() - t0, 1)}
            print('%s under %s %s (copy): exit %d, %d VIOLATION lines %s' % (name, pid, tier, rc, out.count('VIOLATION property='), keys[:4]))
            if rc == 2:
                print(out[-1500:])
    finally:
        sh('git -C %s worktree remove --force %s' % (REPO, wt))
        shutil.rmtree(wt, ignore_errors=True)
    meta.setdefault('detection_on_copy', {})[tier] = results
    meta['detection_latest'] = {'tier': tier, 'verif_commit': sh('git -C %s rev-parse --short HEAD' % VERIF)[1].strip(),
                                'where': 'scratch worktree of /repo HEAD with the patch applied (CARDUTIL_REPO)', 'results': results}
    json.dump(meta, open(os.path.join(d, 'meta.json'), 'w'), indent=1)
    return results


def run(name, tier='quick', props=None):
    d = os.path.join(VERIF, 'seeded', name)
    meta = json.load(open(os.path.join(d, 'meta.json')))
    rc, out = sh('git -C %s status --porcelain' % REPO)
    assert out.strip() == '', '/repo is not clean: ' + out
    rc, out = sh('git -C %s apply %s' % (REPO, os.path.join(d, 'patch.diff')))
    assert rc == 0, 'patch does not apply to /repo: ' + out
    results = {}
    try:
        for pid in (props or [meta['property']]):
            t0 = time.time()
            rc, out = sh('./check %s --tier %s' % (pid, tier), cwd=VERIF, timeout=7200)
            keys = sorted(set(re.findall(r'clause=(\S+)', out)))
            results[pid] = {'exit': rc, 'violation_lines': out.count('VIOLATION property='), 'clauses': keys[:8],
                            'wall_s': round(time.time() - t0, 1)}
            print('%s under %s %s: exit %d, %d VIOLATION lines %s' % (name, pid, tier, rc, out.count('VIOLATION property='), keys[:4]))
    finally:
        sh('git -C %s checkout -- .' % REPO)
    rc, out = sh('git -C %s status --porcelain' % REPO)
    assert out.strip() == '', '/repo not restored: ' + out
    meta.setdefault('detection', {})[tier] = results
    json.dump(meta, open(os.path.join(d, 'meta.json'), 'w'), indent=1)
    # evidence files were rewritten by runs on a changed tree: the caller re-runs the checks on the clean tree
    return results


def main():
    cmd = sys.argv[1]
    if cmd == 'ingest':
        ingest(sys.argv[2], sys.argv[3])
    elif cmd == 'run':
        run(sys.argv[2], sys.argv[3] if len(sys.argv) > 3 else 'quick', sys.argv[4].split(',') if len(sys.argv) > 4 else None)
    elif cmd == 'runcopy':
        run_copy(sys.argv[2], sys.argv[3] if len(sys.argv) > 3 else 'quick', sys.argv[4].split(',') if len(sys.argv) > 4 else None)
    elif cmd == 'runallcopy':
        # python -m harness.seed runallcopy <streams> <k>: stream k of <streams> parallel streams over all kept changes
        n, k = int(sys.argv[2]), int(sys.argv[3])
        names = [x for x in sorted(os.listdir(os.path.join(VERIF, 'seeded'))) if os.path.exists(os.path.join(VERIF, 'seeded', x, 'meta.json'))]
        for name in names[k::n]:
            run_copy(name, 'quick')
    elif cmd == 'runall':
        tier = sys.argv[2] if len(sys.argv) > 2 else 'quick'
        for name in sorted(os.listdir(os.path.join(VERIF, 'seeded'))):
            if os.path.exists(os.path.join(VERIF, 'seeded', name, 'meta.json')):
                run(name, tier)


if __name__ == '__main__':
    main()
