"""IPM level: drivers for IpmWriter / IpmReader instances and Trace_Ipm validation (C06, C10, parts of C09/C11)."""
import collections
import io
import os
from concurrent.futures import ThreadPoolExecutor

from . import core, drv, isoc, isocheck
from .c04 import write_cfg

from cardutil import mciipm


def iev(inst, op, m=None, b=b'', out='', n=0, d=None):
    return {'inst': inst, 'op': op, 'm': isoc.pdict(m) if m else [], 'bytes': list(b), 'out': out, 'n': n,
            'd': isoc.pdict(d) if d else []}


def next_event(inst, rd, secs=5.0):
    """one __next__ on a real reader -> event (+ raw outcome)"""
    try:
        with drv.Watchdog(secs):
            rec = next(rd)
    except StopIteration:
        return iev(inst, 'next', out='stop'), 'stop'
    except BaseException as ex:  # noqa
        o = drv.exc_outcome(ex)
        if o['kind'] == 'liberr':
            rn = o.get('record_number')
            e = iev(inst, 'next', b=bytes(o['context'] or b''), out='liberr', n=rn if isinstance(rn, int) else -1)
        else:
            e = iev(inst, 'next', out=o['kind'], n=-1)
        e['_observed'] = o
        e['_exc'] = ex
        return e, 'err'
    if isinstance(rec, dict):
        return iev(inst, 'next', out='rec', d=rec), 'rec'
    e = iev(inst, 'next', out='exc', n=-1)
    e['_observed'] = {'kind': 'exc', 'cls': 'non-dict record'}
    return e, 'err'


def read_all_events(inst, data, encoding, bc, blocked, limit=100000, style=0, path=None):
    """style 0: next() calls; 1: next() for the first record, then a for loop; 2: a for loop left with break after the
    first record and resumed with a second for loop; 3: one for loop"""
    fh = open(path, 'rb') if path else None          # a real file on disk instead of io.BytesIO
    # otherwise: a plain buffer, a stream that cannot seek or tell, or a file positioned behind a consumed header
    kind = drv.pick(7, 'ipmrfile', len(data), encoding, blocked, style) if not path and not drv.THREADED else 0
    if kind == 2:
        src = drv.new_file(data, kind='pipe')
    elif kind == 5:
        hdr = drv.HEADERS[drv.pick(3, 'ipmrhdr', len(data))]
        src = io.BytesIO(hdr + data)
        src.seek(len(hdr))
    else:
        src = fh or drv.new_file(data)
    try:
        with drv.Env('ipmrd', len(data), encoding, blocked, style, data[-3:]):
            return _read_all(inst, src, encoding, bc, blocked, limit, style)
    finally:
        if fh:
            fh.close()


def _read_all(inst, fobj, encoding, bc, blocked, limit, style):
    rd = mciipm.IpmReader(fobj, encoding=encoding, iso_config=bc, blocked=blocked)
    out = []
    if style == 0:
        for _ in range(limit):
            e, k = next_event(inst, rd)
            out.append(e)
            if k != 'rec':
                break
        return out
    if style == 4:
        # the caller catches the library's error for a bad MESSAGE and keeps reading the same reader (used only for
        # files whose framing is intact): every later error carries its own record number and raw bytes
        for _ in range(limit):
            drv.yield_point()
            e, k = next_event(inst, rd)
            out.append(e)
            if k == 'stop' or (k == 'err' and e['out'] != 'liberr'):
                break
        return out

    def loop(stop_after=None):
        n = 0
        try:
            with drv.Watchdog(20.0):
                for rec in rd:
                    out.append(iev(inst, 'next', out='rec', d=rec) if isinstance(rec, dict) else iev(inst, 'next', out='exc', n=-1))
                    n += 1
                    if stop_after and n >= stop_after:
                        return 'break'
        except BaseException as ex:  # noqa
            o = drv.exc_outcome(ex)
            if o['kind'] == 'liberr':
                rn = o.get('record_number')
                e = iev(inst, 'next', b=bytes(o['context'] or b''), out='liberr', n=rn if isinstance(rn, int) else -1)
            else:
                e = iev(inst, 'next', out=o['kind'], n=-1)
            e['_observed'] = o
            e['_exc'] = ex
            out.append(e)
            return 'err'
        out.append(iev(inst, 'next', out='stop'))
        return 'stop'
    if style == 1:
        e, k = next_event(inst, rd)
        out.append(e)
        if k == 'rec':
            loop()
    elif style == 2:
        if loop(stop_after=1) == 'break':
            loop()
    else:
        loop()
    return out


def write_file(msgs, encoding, bc, blocked, fins=('close',)):
    with drv.Env('ipmwr', len(msgs), encoding, blocked, sorted(msgs[0])[:6] if msgs else 0):
        return _write_file(msgs, encoding, bc, blocked, fins)


def _write_file(msgs, encoding, bc, blocked, fins):
    # every fifth file is written behind a header that the caller put there first (the writer is handed the file
    # positioned at its end, as with a transport header or a file opened for appending)
    header = b''
    f = drv.new_file()
    if not drv.THREADED and drv.pick(5, 'ipmwhdr', len(msgs), encoding, blocked) == 3:
        header = drv.HEADERS[drv.pick(3, 'ipmwh', len(msgs))]
        f.write(header)
    data = _write_file_on(f, msgs, encoding, bc, blocked, fins)
    return data[len(header):] if header and data[:len(header)] == header else data


def _write_file_on(f, msgs, encoding, bc, blocked, fins):
    w = mciipm.IpmWriter(f, encoding=encoding, iso_config=bc, blocked=blocked)
    for m in msgs:
        drv.yield_point()
        w.write(dict(m))
    for x in fins:
        w.close() if x == 'close' else w.__exit__(None, None, None)
    return f.getvalue()


def trace_cfg(wd):
    return write_cfg(os.path.join(wd, 'Trace_Ipm.cfg'),
                     'CONSTANTS P = 1012 T = 2 PAD = 64 MaxLen = %d\nSPECIFICATION TSpec\nPOSTCONDITION AllAccepted\n'
                     'CHECK_DEADLOCK FALSE\n' % drv.max_vbs_len())


def validate(rep, wd, groups, owner, prefix, maxbatch=60):
    """groups: (cfgspec-or-config-dict, codec, traces)"""
    cfg = trace_cfg(wd)
    batches = []
    for cfgspec, codec, traces in groups:
        if not traces:
            continue
        bc = cfgspec if isinstance(cfgspec, dict) else isocheck.get_config(cfgspec)
        c = isoc.consts(bc, codec)
        for part in core.split(traces, max(1, (len(traces) + maxbatch - 1) // maxbatch)):
            batches.append((codec, c, part))

    def one(i):
        codec, c, part = batches[i]
        return core.tlc_batch('Trace_Ipm', cfg, wd, {'consts': c, 'traces': part}, 'ipm-%d' % i, workers=1, timeout=3000)
    with ThreadPoolExecutor(core.NCPU) as ex:
        outs = list(ex.map(one, range(len(batches))))
    other = collections.Counter()
    gen = dist = 0
    for (codec, c, part), (acc, rejects, res) in zip(batches, outs):
        gen += res.generated
        dist += res.distinct
        rep.traces += len(part)
        by = {t['tid']: t for t in part}
        for r in rejects:
            t = by[r[1]]
            e = t['events'][min(r[2], len(t['events'])) - 1]
            payload = {'case': t.get('_desc'), 'codec': codec, 'event_index': r[2], 'instance': e['inst'], 'op': e['op'],
                       'clause': r[3], 'observed_out': e['out'], 'observed_n': e['n'],
                       'observed_bytes_hex': bytes(x & 255 for x in e['bytes']).hex()[:200],
                       'observed': e.get('_observed'), 'detail': t.get('_detail')}
            if owner(r[3]):
                rep.violation('%s:%s%s' % (prefix, r[3], t.get('_key', '')), payload)
            else:
                other[r[3]] += 1
    rep.states += dist
    rep.transitions += gen
    rep.tlc_runs.append({'run': 'Trace_Ipm %d batches' % len(batches), 'generated': gen, 'distinct': dist})
    for c, n in other.items():
        rep.notes.append('clause %s failed on %d traces of this corpus; it is judged by another property\'s check' % (c, n))
    return other
