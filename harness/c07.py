"""C07 - decoding never hangs or crashes: any bytes give a result or the library error.

Message level: the mutation corpus of harness/mutants.py (every structural byte x substituted values, bitmap bit
flips, prefix rewrites, truncation/extension, multi-point mutations, random bytes; ASCII/EBCDIC; binary/hex bitmap)
is decoded by the real loads() under a watchdog; each recorded call is judged by TLC (Trace_Iso).  C07 owns the
outcome-class clauses (hang, any exception that is not the library's data error); the accept/reject decision is C08's.
File level: mutated VBS / 1014 files through VbsReader and IpmReader (Trace_Vbs with strict outcome sets) and through
the command-line tools (the outcome must be a return, not a traceback).
TLC exhaustive: MC_Framing - the specified decoder (step machine) is total and terminates on every data string up to a
bound over a hazardous alphabet under a small configuration (liveness `run ~> done` under weak fairness).
"""
import io
import os

from . import core, drv, isoc, isocheck, mutants, vbsc
from .isoc import PKG


def owner(clause):
    return 'outcome-class-' in clause


def plan(tier, seed):
    jobs = []
    gen = ('gen', 900 + seed)
    nbase = 18 if tier == 'thorough' else 8
    step = 3 if tier == 'thorough' else 2
    for cfgspec in (('pkg',), gen):
        for codec in ('latin_1', 'cp500'):
            for hexb in (False, True):
                if tier == 'quick' and hexb and codec == 'cp500' and cfgspec[0] == 'gen':
                    continue
                for lo in range(0, nbase, step):
                    jobs.append((seed, cfgspec, codec, hexb, tier, lo, lo + step, nbase, 150 if lo == 0 else 0))
    for lo in range(0, 4, 2):
        jobs.append((seed, ('pkg',), 'ascii', False, tier, lo, lo + 2, 4, 40 if lo == 0 else 0))
    return jobs


def keyer(t):
    o = t['events'][0].get('_observed') or {}
    return ':' + (o.get('cls') or '?')


def message_level(rep, wd, tier, seed, own, prefix):
    jobs = plan(tier, seed)
    outs = isocheck._pool(mutants.drive, jobs)
    # one base message and all its mutants per thread, four threads at once (binary and hex bitmaps, both code pages)
    gen = ('gen', 900 + seed)
    tjobs = [(seed + 31, cfgspec, codec, hexb, 'quick', lo, lo + 1, 8, 0)
             for lo, (cfgspec, codec, hexb) in enumerate([(('pkg',), 'latin_1', False), (gen, 'cp500', False), (('pkg',), 'latin_1', True),
                                                          (gen, 'latin_1', False), (('pkg',), 'cp500', False), (gen, 'cp500', True),
                                                          (('pkg',), 'cp500', True), (gen, 'latin_1', True)])]
    jobs = jobs + tjobs
    outs = outs + isocheck.mark_threaded(isocheck.threaded('harness.mutants', 'drive', tjobs, procs=2))
    groups = {}
    for j, o in zip(jobs, outs):
        g = groups.setdefault((j[1], j[2]), [])
        for t in o:
            t['tid'] = len(g)
            t['_key'] = keyer(t) if t['events'][0]['kind'] in ('exc', 'hang') else ''
            g.append(t)
    glist = [(k[0], k[1], v) for k, v in groups.items()]
    total = sum(len(g[2]) for g in glist)
    rep.extra['mutants_decoded'] = total
    kinds = {}
    for g in glist:
        for t in g[2]:
            kinds[t['events'][0]['kind']] = kinds.get(t['events'][0]['kind'], 0) + 1
    rep.extra['observed_outcome_kinds'] = kinds
    for g in glist[:2]:
        t = g[2][min(5, len(g[2]) - 1)]
        rep.sample({'mutant': t['_desc'], 'of': t['_m'], 'codec': g[1], 'observed': t['events'][0]['kind']})
    isocheck.validate(rep, wd, glist, own, prefix, maxbatch=2500)


def _drive_files(args):
    seed, lo, hi = args
    out = []
    bc = PKG['bit_config']
    for tid in range(lo, hi):
        r = drv.rng(seed, 'c07file', tid)
        blocked = bool(tid & 1)
        recs = []
        for i in range(r.randrange(1, 5)):
            m = isoc.gen_message(r, bc, isoc.SAFE, maxbits=6)
            recs.append(isoc.iso8583.dumps(m))
        _, data = drv.vbs_write_events(recs, blocked)
        x = bytearray(data)
        for _ in range(r.randrange(1, 4)):
            kind = r.choice(('set', 'set', 'prefix', 'cut', 'ins', 'del'))
            q = r.randrange(len(x)) if x else 0
            if kind == 'set' and x:
                x[q] = r.randrange(256)
            elif kind == 'prefix' and len(x) >= 4:
                x[0:4] = bytes(r.choice((0, 0, 0xff, 0x80, 1, 0x17)) for _ in range(4))
            elif kind == 'cut':
                del x[q:]
            elif kind == 'ins':
                x[q:q] = bytes(r.randrange(256) for _ in range(r.randrange(1, 5)))
            elif x:
                del x[q:q + r.randrange(1, 5)]
        data = bytes(x)
        events = [drv.ev('given', 0, '', data)] + drv.read_events(data, blocked)[0]
        out.append({'tid': tid, 'blk': blocked, 'strict': True, 'loc': False, 'events': events,
                    '_desc': '%s file of %d bytes (mutated) through VbsReader' % ('blocked' if blocked else 'vbs', len(data))})
    return out


def _ipm_trace(tid, data, enc, blocked, bc, wd, with_tools, what='mutated'):
    from cardutil.cli import mci_ipm_to_csv, mideu
    import contextlib
    from . import ipmc
    events = [ipmc.iev(1, 'given', b=data)] + ipmc.read_all_events(1, data, enc, bc, blocked)
    if with_tools:
        path = os.path.join(wd, 'tool-%d-%d.ipm' % (os.getpid(), tid))
        drv.spit(path, data)
        for tool in ('mci_ipm_to_csv', 'mideu'):
            e = ipmc.iev(1, 'tool', out='returned')
            try:
                with drv.Env('tool', tid, tool, every=3), drv.Watchdog(8.0), contextlib.redirect_stdout(io.StringIO()):
                    if tool == 'mci_ipm_to_csv':
                        mci_ipm_to_csv.cli_run(in_filename=path, out_filename=path + '.csv', in_encoding=enc,
                                               no1014blocking=not blocked)
                    else:
                        mideu.cli_run(func=mideu.extract, input=path, sourceformat='ebcdic' if enc == 'cp500' else 'ascii',
                                      no1014blocking=not blocked, csvoutputfile=path + '.csv')
            except BaseException as ex:  # noqa
                o = drv.exc_outcome(ex)
                e['out'] = 'hang' if o['kind'] == 'hang' else 'exc'
                e['_observed'] = dict(o, tool=tool)
            events.append(e)
        for p in (path, path + '.csv'):
            if os.path.exists(p):
                os.unlink(p)
    for e in events:
        e.pop('_exc', None)
    return {'tid': tid, 'loc': False, 'strict': True, 'cols': [], 'insts': [{'blk': blocked}], 'events': events, '_enc': enc,
            '_desc': '%s %s IPM file of %d bytes (%s) through IpmReader%s' % (enc, '1014' if blocked else 'vbs', len(data), what,
                                                                             ' and the CSV tools' if with_tools else '')}


def _drive_ipm(args):
    """IpmReader and the tools over mutated files, recorded as Trace_Ipm traces: TLC judges every reader step against
    the reading of the record (C07 owns the outcome-class clauses) and every tool run (must return)."""
    seed, lo, hi, wd = args
    from cardutil import mciipm
    out = []
    bc = PKG['bit_config']
    for tid in range(lo, hi):
        r = drv.rng(seed, 'c07ipm', tid)
        blocked = bool(tid & 1)
        enc = r.choice(('latin_1', 'cp500'))
        f = io.BytesIO()
        w = mciipm.IpmWriter(f, encoding=enc, blocked=blocked)
        for i in range(r.randrange(1, 5)):
            w.write(isoc.gen_message(r, bc, isoc.SAFE, maxbits=6))
        w.close()
        x = bytearray(f.getvalue())
        for _ in range(r.randrange(1, 3)):
            q = r.randrange(len(x))
            x[q] = r.choice((0x2d, 0x20, 0xff, 0x00, 0x60, 0x40, r.randrange(256)))
        out.append(_ipm_trace(tid, bytes(x), enc, blocked, bc, wd, tid % 6 == 0))
        if tid % 4 == 1:
            # free text with characters that mean something to string formatting (%, braces) behind a sub-element whose
            # length is damaged: the walk then takes such text for a tag
            m = {'MTI': '1240', 'DE3': '123456', 'PDS0023': 'ABC', 'PDS0052': '100% CREDIT {0} %(x)s %d 50%', 'PDS0148': '{}%s%%'}
            rec = isoc.iso8583.dumps(dict(m), encoding=enc)
            q = rec.find('0023003'.encode(enc))
            for newlen in ('013', '007', '011', '017', '02%', '0{}'):
                y = rec[:q + 4] + newlen.encode(enc) + rec[q + 7:]
                _, data = drv.vbs_write_events([y], blocked)
                out.append(_ipm_trace(tid * 100 + len(out) % 100 + 10 ** 6, data, enc, blocked, bc, wd, newlen in ('013', '02%'),
                                      'first PDS length := %r in front of text with %% and braces' % newlen))
    return out


def odd_numerals(enc):
    """byte values that are numerals of some kind under the code page without being one of the ten digits (superscripts,
    fractions): input generation for the places where the library looks at "is this numeric" """
    out = []
    for b in range(256):
        try:
            c = bytes([b]).decode(enc)
        except UnicodeDecodeError:
            continue
        if (c.isnumeric() or c.isdigit()) and c not in '0123456789':
            out.append(b)
    return out


def _drive_ipm_head(args):
    """the first record's message type (what the tools look at before they start reading): every position x every odd
    numeral of the code page, a sign, a blank; through IpmReader and both tools"""
    seed, enc, blocked, wd = args
    from cardutil import mciipm
    bc = PKG['bit_config']
    out = []
    r = drv.rng(seed, 'c07head', enc, blocked)
    f = io.BytesIO()
    w = mciipm.IpmWriter(f, encoding=enc, blocked=blocked)
    for i in range(2):
        w.write(isoc.gen_message(r, bc, isoc.SAFE, maxbits=5))
    w.close()
    base = f.getvalue()
    vals = odd_numerals(enc) + ['-'.encode(enc)[0], ' '.encode(enc)[0], 0x00]
    tid = 0
    for pos in range(4, 8):
        for v in vals:
            x = bytearray(base)
            x[pos] = v
            out.append(_ipm_trace(tid, bytes(x), enc, blocked, bc, wd, True, 'first message type byte %d := x%02X' % (pos - 4, v)))
            tid += 1
    # all four positions odd numerals at once
    for k, v in enumerate(vals[:6]):
        x = bytearray(base)
        x[4:8] = bytes([v, vals[(k + 1) % len(vals)], v, v])
        out.append(_ipm_trace(tid, bytes(x), enc, blocked, bc, wd, True, 'first message type made of odd numerals'))
        tid += 1
    return out


def file_level(rep, wd, tier, seed):
    n = 2400 if tier == 'thorough' else 240
    chunks = core.split(list(range(n)), core.NCPU)
    batches = vbsc.parallel(_drive_files, [(seed, c[0], c[-1] + 1) for c in chunks])

    def keymap(key, payload):
        o = payload.get('observed') or {}
        return key + (':' + o.get('cls', '') if payload.get('event_out') in ('exc', 'hang') else '')
    vbsc.validate(rep, wd, batches, 'vbsfile', keymap=keymap)
    outs = vbsc.parallel(_drive_ipm, [(seed, c[0], c[-1] + 1, wd) for c in chunks])
    outs += vbsc.parallel(_drive_ipm_head, [(seed, enc, blk, wd) for enc in ('latin_1', 'cp500') for blk in (False, True)])
    from . import ipmc
    groups = {}
    for o in outs:
        for t in o:
            g = groups.setdefault(t['_enc'], [])
            t['tid'] = len(g)
            ev = t['events']
            t['_key'] = ''
            for e in ev:
                if e['out'] in ('exc', 'hang') and e.get('_observed'):
                    t['_key'] = ':' + str(e['_observed'].get('tool', 'IpmReader')) + ':' + str(e['_observed'].get('cls'))
            g.append(t)
    rep.extra['ipmreader_files'] = sum(len(g) for g in groups.values())
    rep.extra['tool_runs'] = sum(1 for g in groups.values() for t in g for e in t['events'] if e['op'] == 'tool')
    ipmc.validate(rep, wd, [(('pkg',), enc, ts) for enc, ts in groups.items()],
                  lambda c: 'outcome-class-' in c or c.startswith('tool-did-not-return'), 'ipmfile', maxbatch=30)


def run(rep, wd, tier, seed):
    rep.assumptions += ['TLC 1.8 evaluates the TLA+ text correctly',
                        '"promptly" is a 4 s watchdog per loads call (5 s per reader step, 8 s per tool run); the largest valid message decodes in a few milliseconds']
    from . import c08mc
    c08mc.model_check(rep, wd, tier)
    message_level(rep, wd, tier, seed, owner, 'decode')
    file_level(rep, wd, tier, seed)


def replay(rep, wd, payload):
    isocheck.replay(rep, wd, payload, owner, 'decode')
