"""C03 - VBS framing: any record list survives write then read, with byte-exact layout.

1. TLC exhaustive: MC_Vbs (writer lifecycle + reader at small P; LayoutInv, ReadBackInv) blocked and unblocked.
2. (the TLC-generated lifecycle behaviours of MC_VbsHist are replayed on the real writer/reader by C11, which shares
   the specification; this check adds the configured maximum record length changed at run time)
3. code -> spec: recorded write/read executions with concrete bytes validated by Trace_Vbs:
   single-record files of every length 1..MaxLen(+2) (quick: boundary lengths), blocked and unblocked, class API and
   list/bytes functions; multi-record lists biased to put prefixes / record ends at payload offsets 1008..1016.
"""
from . import core, drv, vbsc
from .drv import P


def single_lengths(tier, seed, maxlen):
    if tier == 'thorough':
        return list(range(1, maxlen + 3))
    r = drv.rng(seed, 'c03-len')
    s = {1, 2, 3, 4, 5, 63, 64, 65, 255, 256, 257, maxlen - 1, maxlen, maxlen + 1, maxlen + 2}
    for b in (1, 2, 3, 5):
        for d in range(-10, 6):
            x = b * P + d
            if 1 <= x <= maxlen:
                s.add(x)
    while len(s) < 110:
        s.add(r.randrange(1, maxlen + 1))
    return sorted(s)


def _drive(args):
    seed, jobs = args
    out = []
    for (tid, kind, a, b) in jobs:
        r = drv.rng(seed, 'c03', tid)
        if tid % 6 == 1:
            drv.hazard(r)
        if kind == 'single':
            n, mode = a, b
            blocked = bool(mode & 1)
            api = 'func' if mode & 2 else ('class2' if n % 3 == 0 else 'class')
            recs = [vbsc.rec_content(r, n, vbsc.STYLES[(n + mode) % len(vbsc.STYLES)])]
        elif kind == 'fixedlist':
            blocked, api = True, 'class'
            recs = [vbsc.rec_content(r, n_, 'code', i * 97) for i, n_ in enumerate(a)]
        else:
            blocked = bool(tid & 1)
            api = 'func' if tid % 5 == 0 else ('mixed' if tid % 5 == 2 else ('class2' if tid % 5 == 3 else 'class'))
            recs = []
            off = 0
            style = r.choice(vbsc.STYLES)
            for _ in range(r.choice((2, 3, 4, 6, 9, 14))):
                room = P - (off % P)
                n = r.choice((1, 2, room - 8, room - 5, room - 4, room - 3, room - 1, room, room + 1, room + 4,
                              r.randrange(1, 80), r.randrange(1, 1500)))
                n = min(max(1, n), 3000)
                recs.append(vbsc.rec_content(r, n, style, off))
                off += 4 + n
        real = api == 'class' and tid % 7 == 3          # a real file on disk instead of io.BytesIO
        try:
            events = None
            events = _write_and_read(recs, blocked, api, real, tid)
        except BaseException as ex:  # noqa
            if max(len(x) for x in recs) > drv.max_vbs_len():
                continue              # records above the configured maximum: refusing to write them is a don't-care
            events = [drv.ev('write', len(x), '', x) for x in recs] + [drv.ev('fin', 1), drv.ev('file', 0, '', b'\xff')]
            events[-1]['_observed'] = drv.exc_outcome(ex)
        out.append({'tid': tid, 'blk': blocked, 'strict': True, 'loc': False, 'events': events,
                    '_desc': '%s %s records of lengths %s via %s API%s' % ('blocked' if blocked else 'unblocked', len(recs),
                                                                           [len(x) for x in recs][:12], api,
                                                                           ' on a real file' if real else '')})
    return out


def _write_and_read(recs, blocked, api, real, tid):
    if True:
        if real:
            import os
            import tempfile
            fd, path = tempfile.mkstemp(prefix='c03-', dir=os.path.join(core.VERIF, '.work'))
            os.close(fd)
            with open(path, 'w+b') as fobj:
                events, data = drv.vbs_write_events(recs, blocked, ('close',), api, fobj)
            with open(path, 'rb') as fobj:
                events += drv.read_events(data, blocked, fileobj=fobj)[0]
            os.unlink(path)
        else:
            events, data = drv.vbs_write_events(recs, blocked, ('close',), api)
        if real:
            pass
        elif api == 'func':
            try:
                lst = drv.mciipm.vbs_bytes_to_list(data, blocked=blocked)
                events += [drv.ev('next', 0, 'rec', x) for x in lst] + [drv.ev('next', 0, 'stop')]
            except BaseException as ex:  # noqa
                events.append(drv._err_event(drv.exc_outcome(ex)))
        else:
            events += drv.read_events(data, blocked)[0]
        return events


def run(rep, wd, tier, seed):
    rep.assumptions += ['TLC 1.8 evaluates the TLA+ text correctly', 'file objects: in-memory buffers, real files, pipes-like streams, gzip file objects (harness/drv.py)',
                        'MAX_VBS_RECORD_LENGTH read from config.py at run time: %d' % drv.max_vbs_len()]
    vbsc.model_check(rep, wd, tier, invariants=('LayoutInv', 'ReadBackInv'), props=())
    maxlen = drv.max_vbs_len()
    jobs = []
    tid = 0
    for n in single_lengths(tier, seed, maxlen):
        for mode in ((0, 1, 2, 3) if tier == 'quick' or n % 97 == 0 else ((n % 2), 2 + ((n + 1) % 2))):
            jobs.append((tid, 'single', n, mode))
            tid += 1
    for _ in range(1500 if tier == 'thorough' else 120):
        jobs.append((tid, 'multi', 0, 0))
        tid += 1
    for first in (1004, 1008, 2016, 996):
        for second in (1012, 1013, 1500, 2023, 2024, 2025, 3036):
            jobs.append((tid, 'fixedlist', (first, second, 600, 5), 1))
            tid += 1
    parts = core.split(jobs, core.NCPU * (4 if tier == 'thorough' else 1))
    batches = vbsc.parallel(_drive, [(seed, p) for p in parts])
    # four threads at once, each writing and reading its own files (blocked and unblocked mixed)
    from . import isocheck
    tjobs = [(seed, [(tid + 1000 * k + i, 'multi', 0, 0) for i in range(40 if tier == 'thorough' else 24)]) for k in range(8)]
    batches += isocheck.mark_threaded(isocheck.threaded('harness.c03', '_drive', tjobs, procs=2))
    # two writers / readers alive at the same time and used alternately, record by record
    ljobs = [(seed, [(tid + 20000 + 1000 * k + i, 'multi', 0, 0) for i in range(12)]) for k in range(8)]
    batches += isocheck.lockstep('harness.c03', '_drive', ljobs, procs=4)
    rep.sample({'trace': batches[0][0]['_desc'], 'events': [e['op'] + ':' + e['out'] for e in batches[0][0]['events']]})
    rep.sample({'trace': batches[-1][-1]['_desc']})
    vbsc.validate(rep, wd, batches, 'vbs')
    # the configured maximum record length changed at run time (after the library has been imported and used)
    from cardutil import config as cfgmod
    saved = cfgmod.config.get('MAX_VBS_RECORD_LENGTH', 6000)
    try:
        for newmax in (8000, 1000):
            cfgmod.config['MAX_VBS_RECORD_LENGTH'] = newmax
            ts = _drive((seed, [(i, 'single', n, i % 4) for i, n in enumerate((newmax - 1, newmax, newmax + 1, 6000 if newmax > 6000 else 999,
                                                                              6001 if newmax > 6000 else 1001))]))
            for t in ts:
                t['_desc'] += ' with MAX_VBS_RECORD_LENGTH changed to %d at run time' % newmax
            vbsc.validate(rep, wd, [ts], 'vbs-maxlen-%d' % newmax, maxlen=newmax)
    finally:
        cfgmod.config['MAX_VBS_RECORD_LENGTH'] = saved
    rep.extra['single_record_lengths'] = 'all 1..%d' % (maxlen + 2) if tier == 'thorough' else 'boundary + sampled (%d lengths)' % len(single_lengths(tier, seed, maxlen))
    rep.exhaustive = tier == 'thorough'


def replay(rep, wd, payload):
    import sys
    core.generic_replay(sys.modules[__name__], rep, wd, payload)
