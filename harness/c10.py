"""C10 - a bad record is reported with its own record number and raw bytes.

The fault matrix (files of n records x every position k x each fault kind x blocked/unblocked x encodings) is
enumerated exhaustively up to n = 4 (thorough: sampled up to n = 40 in addition); each file is built by the real
IpmWriter, the fault is injected into record k, the file is read by the real IpmReader and the recorded execution
(records yielded, then the error with record_number / binary_context_data, plus the operator line printed by
print_exception_details) is judged by TLC (Trace_Ipm with loc = TRUE): records 1..k-1 unchanged, error number k,
context = the raw bytes of record k including its length prefix (or the bytes that could be read of it).
The specification of the reader is model-checked in MC_Vbs (C03/C09); this check adds no separate exhaustive model:
the quantifier is a finite product which is enumerated.
"""
import contextlib
import io
import re
import struct

from . import core, drv, isoc, isocheck, ipmc
from .isoc import PKG

from cardutil.cli import print_exception_details

DECCFG_BIT = '5'          # a copy of the packaged configuration where element 5 is a decimal


def dec_config():
    import copy
    bc = copy.deepcopy(PKG['bit_config'])
    bc[DECCFG_BIT]['field_python_type'] = 'decimal'
    return bc


FAULTS = ('truncated-record', 'oversized-length', 'undecodable-mti', 'unknown-bit', 'bad-field-length', 'bad-typed-value',
          'bad-pds', 'bad-icc', 'short-message', 'short-message-empty-bitmap', 'bare-mti', 'bad-decimal', 'last-element-cut-short',
          'last-length-overstated', 'length-with-odd-numeral', 'length-negative', 'pds-length-with-odd-numeral',
          'datetime-with-blank-or-sign')


# faults that leave the framing of the file intact (a reader can go on behind them) and need no other configuration
MESSAGE_FAULTS = ('undecodable-mti', 'unknown-bit', 'bad-field-length', 'bad-typed-value', 'bad-pds', 'length-negative', 'short-message', 'bare-mti')


def owner(clause):
    return True


def base_message(i, enc):
    m = {'MTI': '1240', 'DE2': '5%015d' % i, 'DE3': '%06d' % i, 'DE4': 100 + i, 'DE12': __import__('datetime').datetime(2024, 1, 1 + i % 28, 10, 0, i % 60),
         'DE48': '0023003ABC0052002%02d' % (i % 100), 'DE55': b'\x9f\x26\x02\x01\x02\x82\x01' + bytes([i % 256]), 'DE71': i + 1}
    if i % 3 == 0:
        m['DE72'] = 'X' * (900 + i)     # pushes records across block boundaries
    return m


def inject(rec, kind, enc, r):
    """damage an encoded message (record bytes); returns new record bytes (or None for framing faults)"""
    x = bytearray(rec)
    if kind == 'undecodable-mti':
        x[2:3] = 'x'.encode(enc)
    elif kind == 'unknown-bit':
        x[4] |= 0x02           # bit 7 has no configuration
    elif kind == 'bad-field-length':
        x[20:22] = 'zz'.encode(enc)       # DE2 prefix
    elif kind == 'length-with-odd-numeral':
        from .c07 import odd_numerals         # a superscript / fraction of the code page inside the DE2 length prefix
        odd = odd_numerals(enc)
        x[20:22] = bytes([x[20], odd[r.randrange(len(odd))]]) if r.random() < 0.5 else bytes([odd[r.randrange(len(odd))], x[21]])
    elif kind == 'length-negative':
        x[20:22] = '-1'.encode(enc)
    elif kind == 'pds-length-with-odd-numeral':
        from .c07 import odd_numerals
        odd = odd_numerals(enc)
        q = bytes(x).find('0023003'.encode(enc))
        x[q + 4 + r.randrange(3)] = odd[r.randrange(len(odd))]
    elif kind == 'datetime-with-blank-or-sign':
        # DE12 (yymmddHHMMSS) follows DE2 (2 + 16), DE3 (6), DE4 (12): a blank, a sign or a tab where a digit belongs
        q = 20 + 18 + 6 + 12
        pos, ch = ((10, ' '), (2, ' '), (6, '-'), (10, '+'), (6, ' '), (11, '\t'))[r.randrange(6)]
        x[q + pos:q + pos + 1] = ch.encode(enc)
    elif kind == 'bad-typed-value':
        # DE4 follows DE2 (2 + 16) and DE3 (6)
        q = 20 + 18 + 6
        x[q:q + 2] = 'ab'.encode(enc)
    elif kind == 'bad-pds':
        q = bytes(x).find('0023003'.encode(enc))
        x[q + 4:q + 7] = 'q1z'.encode(enc)
    elif kind == 'bad-icc':
        q = bytes(x).find(b'\x9f\x26\x02')
        x[q + 2] = 0xf0         # declared length runs past the field -> reading truncated / refused
        x = x[:q + 3 + 0] + x[q + 3:]
        x[q - 3:q] = '002'.encode(enc)     # ICC field of 2 bytes: a tag without a length byte
        x = x[:q + 2] + x[q + 10:]
    elif kind == 'bad-decimal':
        q = 20 + 18 + 6 + 12               # element 5 follows DE2 (2 + 16), DE3 (6), DE4 (12)
        x[q + 3:q + 10] = 'garbage'.encode(enc)
    elif kind == 'last-element-cut-short':
        x = x[:-2]                         # the final (fixed-width) element is two bytes short
    elif kind == 'last-length-overstated':
        x = x[:-8]                         # drop the final fixed element DE71 but leave its bit on ...
        # (the reading needs 8 more bytes than the record holds)
    elif kind == 'short-message':
        x = x[:11]
    elif kind == 'short-message-empty-bitmap':
        # numeric MTI followed by a partial bitmap without any element bit (4..19 bytes in all)
        x = x[:4] + bytes(r.choice((1, 4, 8, 12, 15)))
    elif kind == 'bare-mti':
        x = x[:4]
    return bytes(x)


def build_file(n, k, kind, enc, blocked, bc, seed, k2=0):
    r = drv.rng(seed, 'c10', n, k, kind, enc, blocked)
    msgs = [base_message(i + 1, enc) for i in range(n)]
    if kind == 'bad-decimal':
        import decimal
        for i, m in enumerate(msgs):
            m['DE5'] = decimal.Decimal(1000 + i) / 100
    recs = [isoc.iso8583.dumps(dict(m), encoding=enc, iso_config=bc) for m in msgs]
    if kind in ('truncated-record', 'oversized-length'):
        stream = b''
        for i, rec in enumerate(recs):
            if i + 1 == k and kind == 'oversized-length':
                stream += struct.pack('>I', drv.max_vbs_len() + 1 + (i * 7919) % 100000) + rec
                break
            stream += struct.pack('>I', len(rec)) + rec
            if i + 1 == k:
                stream = stream[:len(stream) - 1 - (len(rec) // 2)]
                break
        data = drv.render_blocks(stream, drv.min_blocks(len(stream))) if blocked else stream
        if blocked and kind == 'truncated-record':
            # cut the blocked file inside its last block so that the payload really ends mid-record
            keep = (len(stream) // drv.P) * (drv.P + 2) + (len(stream) % drv.P)
            data = data[:keep]
        return data
    recs[k - 1] = inject(recs[k - 1], kind, enc, r)
    if k2:
        recs[k2 - 1] = inject(recs[k2 - 1], MESSAGE_FAULTS[(MESSAGE_FAULTS.index(kind) + k2) % len(MESSAGE_FAULTS)], enc, r)
    _, data = drv.vbs_write_events(recs, blocked)
    return data


def _drive(args):
    seed, cases = args
    out = []
    for case in cases:
        tid, n, k, kind, enc, blocked = case[:6]
        k2 = case[6] if len(case) > 6 else 0
        if tid % 8 == 5:
            drv.hazard(drv.rng(seed, 'hazard', tid))
        bc = dec_config() if kind == 'bad-decimal' else PKG['bit_config']
        data = build_file(n, k, kind, enc, blocked, bc, seed, k2)
        realfile = None
        if tid % 5 == 3:
            import os
            realfile = os.path.join(core.VERIF, '.work', 'c10-%d-%d.ipm' % (os.getpid(), tid))
            open(realfile, 'wb').write(data)
        events = [ipmc.iev(1, 'given', b=data)] + ipmc.read_all_events(1, data, enc, bc, blocked, style=4 if k2 else tid % 4, path=realfile)
        if realfile:
            os.unlink(realfile)
        last = events[-1]
        detail = None
        if last.get('_exc') is not None and last['out'] == 'liberr' and not drv.THREADED:
            # (redirecting sys.stdout is process-wide: with several harness threads the attribute of the error is judged)
            buf = io.StringIO()
            with contextlib.redirect_stdout(buf):
                print_exception_details(last['_exc'])
            m = re.search(r'Error detected in record (\d+)', buf.getvalue())
            detail = {'operator_line': m.group(0) if m else None}
            # the operator message is what the user sees: judge the number that is printed
            last['n'] = int(m.group(1)) if m else -1
        for e in events:
            e.pop('_exc', None)
        out.append({'tid': tid, 'loc': True, 'strict': True, 'cols': [], 'insts': [{'blk': blocked}], 'events': events,
                    '_desc': '%d records, fault %s in record %d, %s, %s, reader consumed by %s' % (
                        n, kind, k, enc, 'blocked' if blocked else 'vbs',
                        'next() calls that go on after each library error (second fault in record %d)' % k2 if k2 else
                        ('next() calls', 'next() then a for loop', 'a for loop left with break and resumed', 'one for loop')[tid % 4]),
                    '_detail': detail, '_enc': enc, '_cfg': 'dec' if kind == 'bad-decimal' else 'pkg'})
    return out


def run(rep, wd, tier, seed):
    rep.assumptions += ['TLC 1.8 evaluates the TLA+ text correctly',
                        'packaged field configuration; faults are injected into records produced by the real encoder']
    cases = []
    tid = 0
    for enc in ('latin_1', 'cp500'):
        for blocked in (False, True):
            for n in (1, 2, 3, 4):
                for k in range(1, n + 1):
                    for kind in FAULTS:
                        cases.append((tid, n, k, kind, enc, blocked))
                        tid += 1
    if tier == 'thorough':
        r = drv.rng(seed, 'c10-big')
        for _ in range(2000):
            n = r.randrange(5, 41)
            cases.append((tid, n, r.randrange(1, n + 1), r.choice(FAULTS), r.choice(('latin_1', 'cp500')), bool(r.randrange(2))))
            tid += 1
    # the caller catches the error for a bad message and keeps reading: two (three) faults per file
    for enc in ('latin_1', 'cp500'):
        for blocked in (False, True):
            for n, k, k2 in ((3, 1, 2), (4, 2, 4), (6, 2, 5), (6, 1, 6), (5, 3, 4), (7, 2, 3)):
                for kind in MESSAGE_FAULTS:
                    if (tid + n) % 2 == 0 or tier == 'thorough':
                        cases.append((tid, n, k, kind, enc, blocked, k2))
                    tid += 1
    parts = core.split(cases, core.NCPU)
    outs = isocheck._pool(_drive, [(seed, p) for p in parts])
    # four threads at once, each reading its own faulty file
    tcases = [(c[0] + 100000,) + tuple(c[1:]) for c in cases[:: max(1, len(cases) // 160)]]
    outs = outs + isocheck.mark_threaded(isocheck.threaded('harness.c10', '_drive', [(seed, p) for p in core.split(tcases, 8)], procs=2))
    # two readers alive at the same time, consumed alternately
    lcases = [(c[0] + 200000,) + tuple(c[1:]) for c in cases[3:: max(1, len(cases) // 80)]]
    outs = outs + isocheck.lockstep('harness.c10', '_drive', [(seed, p) for p in core.split(lcases, 8)], procs=4)
    groups = {}
    for o in outs:
        for t in o:
            g = groups.setdefault((t['_cfg'], t['_enc']), [])
            t['tid'] = len(g)
            g.append(t)
    glist = [(dec_config() if k[0] == 'dec' else ('pkg',), k[1], ts) for k, ts in groups.items()]
    rep.extra['fault_matrix'] = {'files': len(cases), 'fault_kinds': list(FAULTS), 'n': '1..4 exhaustive' + (', 5..40 sampled' if tier == 'thorough' else '')}
    kinds = {}
    for g in glist:
        for t in g[2]:
            kinds[t['events'][-1]['out']] = kinds.get(t['events'][-1]['out'], 0) + 1
    rep.extra['terminal_outcomes'] = kinds
    rep.sample({'trace': glist[0][2][5]['_desc'], 'events': [e['out'] or e['op'] for e in glist[0][2][5]['events']],
                'operator': glist[0][2][5]['_detail']})
    ipmc.validate(rep, wd, glist, owner, 'errloc')
    rep.exhaustive = True


def replay(rep, wd, payload):
    import sys
    core.generic_replay(sys.modules[__name__], rep, wd, payload)
