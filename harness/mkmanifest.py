"""Regenerates /verif/MANIFEST.json from the CLAIMS table below (run: /venv/bin/python -m harness.mkmanifest)."""
import json
import os

VERIF = os.path.dirname(os.path.dirname(os.path.abspath(__file__)))
BASELINE = ("cd /repo && env -u CARDUTIL_VERIF /venv/bin/python -m pytest -ra -q -p no:cacheprovider --timeout=900 "
            "--continue-on-collection-errors")

TB = ("Trusted base: TLC 1.8 (tla2tools + CommunityModules), the TLA+ text under /verif/spec, the projection of "
      "observables to JSON in harness/ (bytes -> ints, no interpretation). The harness varies dimensions that the "
      "specification deliberately does not mention - the environment of a call (library debug logging, warnings as "
      "errors, a 6-digit decimal context, a daylight-saving time zone, python -O), the kind of argument and file "
      "object (re-used bytearray, non-dict mappings, str subclasses; pipes, gzip files, files behind a header, "
      "yielding Python-level files; a configuration derived by copy-and-edit from one already in use; a dictionary "
      "re-used as a template), object lifetime, four threads working on separate objects at once, two histories in "
      "strict lock-step (drv.Baton), 120 frames of stack, a transient I/O error that the caller retries, copies and "
      "pickles of objects, a module re-load between two calls - every such history is judged by the same clauses. ")

# pid -> (technique, level text, level note, design ref)
CLAIMS = {
    'C04': ("TLA+ spec (Blocker/Blocks) model-checked by TLC; TLC-enumerated behaviours replayed on Block1014; "
            "recorded write histories trace-validated by TLC",
            "TLC exhaustively checks the cell-level blocker (no loss, Finals, one-shot, refinement to the integer "
            "skeleton) at small P; at P=1012 TLC enumerates every (first write, next write) behaviour of the skeleton "
            "and each is replayed on the real Block1014 (quick: sampled first writes x all 3037 next lengths; thorough: "
            "all 2025 first writes, one-call and split); recorded histories with concrete adversarial bytes are "
            "validated against the spec by TLC. Bounded: histories longer than 2 writes are sampled.",
            TB + "Unbounded histories of the integer skeleton: Apalache inductive invariant (BlockIntInd).", "3 C04"),
    'C05': ("TLA+ spec (Unblocker/Blocks) model-checked by TLC incl. termination; TLC-enumerated read behaviours and "
            "fault cases replayed on Unblock1014/unblock_1014; recorded read sequences trace-validated by TLC",
            "TLC exhaustively checks that the refill/deliver machine refines the abstract read (slice of the payload "
            "stream, read-all gives the rest) and terminates, and the one-shot laws (inversion up to fill, every cut and "
            "trailer corruption refused) at small P; at P=1012 every (first read, next size 0..2025) behaviour on a whole "
            "and a cut-short input and every cut length / trailer byte value are enumerated by TLC and replayed on the "
            "real code; recorded read sequences over arbitrary inputs are validated by TLC with concrete bytes. Unbounded: "
            "Apalache discharges an inductive invariant of the implementation-shaped model UnblockIntInd (all file "
            "lengths, request sizes, histories), and real executions are replayed through that model (Trace_UnblockInd).",
            TB + "read(0) written explicitly and negative sizes are outside the statement.", "3 C05"),
    'C03': ("TLA+ spec (Vbs/Blocks) model-checked by TLC; recorded writer/reader executions with concrete bytes "
            "trace-validated by TLC (Trace_Vbs)",
            "TLC exhaustively checks the implementation-shaped writer lifecycle and the reader at small P (layout = "
            "Frame/Finals(Frame), read-back = records). At real size every recorded execution (records written, file "
            "bytes, every __next__ outcome) is decided by TLC from the concrete bytes: quick = boundary and sampled "
            "single-record lengths x blocked/unblocked x class/function API + biased multi-record lists; thorough = every "
            "length 1..MAX+2.",
            TB + "MAX_VBS_RECORD_LENGTH is read from config.py at run time.", "3 C03"),
    'C09': ("TLA+ spec (Vbs Truncate action) model-checked by TLC; every cut offset of generated real files read with "
            "the real reader and trace-validated by TLC",
            "TLC exhaustively checks TruncInv (a cut file reads as exactly the complete records, then "
            "terminator/short-prefix/short-record) for every cut of every small writer file; at real size every offset "
            "0..len of each generated VBS / blocked file is cut, read with VbsReader and the recorded outcome sequence is "
            "decided by TLC (outcome sets: stop or library error at a cut, nothing else).",
            TB + "Files are seeded samples (exhaustive over offsets per file). IPM-level cuts are covered once the "
            "ISO8583 spec is bound (C06/C07 machinery).", "3 C09"),
    'C11': ("TLA+ lifecycle spec (Vbs writer with explicit file position) model-checked by TLC; every TLC-generated "
            "history replayed on the real writer (BytesIO and real files) and trace-validated by TLC",
            "TLC exhaustively checks LayoutInv/ReadBackInv/OnceProp over histories write^{0..2};(close|exit)^{1..3}, "
            "blocked and unblocked; the unguarded design yields the D9 counterexample (spec/MC_Vbs_unguarded.cfg). Every "
            "history of the model is dumped by TLC, replayed on the real VbsWriter with boundary record lengths, and "
            "the recorded ops + file bytes + read-back are decided by TLC.",
            TB + "Model record lengths are mapped to real boundary lengths (harness/c11.py LENMAP).", "3 C11"),
    'C01': ("TLA+ spec (Iso8583/Pds/Bytes) model-checked by TLC over the power set of an element universe; recorded "
            "dumps->loads executions trace-validated by TLC (Trace_Iso, round-trip clauses)",
            "TLC exhaustively checks that the specification's Layout and Reading agree (round trip, representability, "
            "predicted length) over elements x candidate values x {binary,hex} x 3 codecs with the configuration "
            "exported from the working tree; every recorded dumps->loads execution of the real code (length sweep of "
            "every variable element, random well-formed messages over packaged and generated configurations, codecs, "
            "both bitmaps) is decided by TLC: layout bytes, reading, and Expected(m) come back.",
            TB + "Python codec tables, strftime/strptime on plain digits (DESIGN appendix A).", "3 C01"),
    'C02': ("TLA+ reference codec (Iso8583.tla, written from the documentation) evaluated by TLC on recorded dumps/loads "
            "calls, byte-for-byte and key-for-key; spec self-consistency model-checked (MC_Iso)",
            "Every single element and (quick: 1600 sampled, thorough: all 8001) pairs of elements of a generated "
            "127-element configuration, the over-length family on every variable element, short fixed values (padding) and "
            "derived entries are encoded/decoded by the real code; TLC compares the bytes with Layout(m) and the result "
            "with Reading(b), and demands refusal of over-length values.",
            TB + "Python codec tables.", "3 C02"),
    'C07': ("TLA+ decoder spec model-checked for totality/termination (MC_Framing); structure-aware mutants and random "
            "bytes decoded by the real code under a watchdog, each recorded call judged by TLC (Trace_Iso / Trace_Vbs "
            "outcome sets)",
            "Every structural byte (length prefixes, PDS sub-lengths, bitmap bytes, TLV lengths, MTI) of ~100 base "
            "messages x substituted values (thorough: all 256), prefix rewrites, truncation/extension, multi-point "
            "mutations and random bytes, under ASCII/EBCDIC and binary/hex bitmaps, packaged and generated configurations; "
            "mutated VBS/1014 files through VbsReader, IpmReader and the two CSV tools. TLC decides admissibility of "
            "each outcome class (dict / library error / records+stop); hang and foreign exceptions are in no outcome set.",
            TB + "'Promptly' = 4 s watchdog per loads call (5 s per reader step, 8 s per tool run).", "3 C07"),
    'C08': ("TLA+ three-valued strict reference decoder (Reading: must-accept / must-reject / don't-care with exact "
            "framing) evaluated by TLC on every recorded loads call; decoder step machine model-checked (MC_Framing)",
            "TLC exhaustively checks pointer = sum of spans, contiguity, non-negative lengths, own-bytes and agreement "
            "with the declarative reading on every data string up to a bound. The mutation corpus of C07 plus targeted "
            "prefix attacks (negative / signed / spaced / underscored prefixes swallowed by a following fixed element) "
            "is decoded by the real code and TLC judges accept/reject and the dictionary key for key.",
            TB + "Lenient numerals (Python int() extras) are a don't-care for acceptance as the property states; "
            "measured semantics in DESIGN appendix A.", "3 C08"),
    'C12': ("TLA+ spec (Pds.tla: greedy Pack, TLV Walk) model-checked by TLC at scaled constants; real dumps/loads "
            "executions over the boundary sweep trace-validated by TLC (Layout includes carrier assignment)",
            "TLC exhaustively checks FitsCap/NoSplit/RoundTrip/Greedy/ordering for every ascending set of <=4 tags x "
            "every value length at Cap=20; at real constants (999, header 7, carriers from config.py) every pair of value "
            "lengths putting the running carrier length in 985..1005 (quick: 40 first lengths x 21 sums; thorough: all), "
            "zero-length and header-like values, sets needing 1..5 carriers are encoded and decoded by the real code and "
            "TLC compares carrier bytes and PDSxxxx entries.",
            TB + "Sets beyond carrier capacity and values longer than 992 are outside the statement.", "3 C12"),
    'C15': ("TLA+ spec (Card.tla: textbook Luhn) model-checked by TLC over every digit string up to a bound; every "
            "TLC-printed (digits, check digit) replayed on the real functions in-process and in a python -O child; "
            "recorded calls on long numbers trace-validated by TLC (Trace_Card)",
            "TLC exhaustively checks AppendValid and Detects (all single substitutions, adjacent transpositions except "
            "0/9) for all digit strings of length <= 4 (quick) / 6 (thorough); all of them are replayed on "
            "calculate/add/validate in normal and optimised interpreter mode; numbers to 40 digits with separators and "
            "all their substitutions/transpositions are judged by TLC in both modes.",
            TB + "The -O child is the same interpreter started with -O.", "3 C15"),
    'C16': ("TLA+ spec (Card.tla MaskOf/MaskProps; Iso8583.tla PAN / PAN-PREFIX processors, Leaks) model-checked and "
            "evaluated by TLC on recorded mask() calls and on loads() results under masking configurations",
            "TLC exhaustively checks MaskProps over strings of length 10..11 (thorough 13) over {digit, letter, mask "
            "char}; recorded mask() calls (length 10..40, arbitrary characters and mask characters) and decodes under "
            "configurations putting PAN / PAN-PREFIX on each of the 17 variable-length text elements of the packaged "
            "configuration, with position-distinct card numbers, are judged by TLC: masked value / first nine returned, "
            "clear number a substring of no returned value.",
            TB + "Numbers shorter than 10 and multi-character mask strings are outside the statement.", "3 C16"),
    'C06': ("TLA+ composition spec (Trace_Ipm = Vbs reader/writer ; Iso8583 Layout/Reading, per-instance state) "
            "evaluated by TLC on recorded multi-instance executions; interleavings enumerated by TLC (IpmMulti) and "
            "replayed on real instances",
            "TLC enumerates the interleavings of 2 writers and 2 readers (quick: 600 simulated schedules, thorough: all "
            "25,200); each is replayed on real instances created up front (one reader hitting a bad record) and every "
            "event is judged against that instance's own specification state. Files of 1..400 heterogeneous messages x 3 "
            "codecs x {VBS,1014} x {packaged, generated} configuration are written and read back by the real code; TLC "
            "judges file bytes (Frame/Finals of the encoded messages) and every yielded dict (Reading of its record).",
            TB + "Instance isolation is checked at call granularity (IpmMulti schedules) and at thread granularity "
            "(four threads on separate objects).", "3 C06"),
    'C10': ("TLA+ spec of error location (Trace_Ipm with loc: record number = yielded + 1, context = prefix + record / "
            "CtxOk for framing faults) evaluated by TLC on the exhaustively enumerated fault matrix",
            "Files of n = 1..4 records x every position k x 9 fault kinds (truncated record, oversized length, "
            "undecodable MTI, unknown bit, bad field length, bad typed value, bad PDS, bad ICC, short message) x "
            "blocked/unblocked x {latin_1, cp500} (thorough adds n up to 40 sampled) are read by the real IpmReader; "
            "TLC judges the yielded prefix, the record number printed by print_exception_details and the context bytes.",
            TB + "Faults are injected into records produced by the real encoder under the packaged configuration.",
            "3 C10"),
    'C17': ("TLA+ spec of the required report (Inspect.tla: invalid classes, writer facts, don't-care at bytes "
            "1012-1013) evaluated by TLC on recorded ipm_info calls over real writer files; probe rule model-checked at "
            "scaled sizes (pre-repair rule kept as reproducer)",
            "Writer files for every block count 1..10 (thorough 16) x 3 encodings x blocked/unblocked, unblocked files "
            "engineered with 0x40 0x40 at 1012-1013, and the invalid classes at their boundaries (0..23/24 bytes, "
            "max/max+1 first length, every unconfigured bit) are inspected by the real ipm_info; TLC decides each report "
            "from the file head, its length and the writer facts.",
            TB + "A reported encoding label is projected to a family by what it encodes the digits to.", "3 C17"),
    'C18': ("TLA+ spec (ParamCore/Param: index phase, trailer, row filter, column slicing with the -8 shift, composed "
            "with the Vbs unframing) model-checked by TLC (MC_Param) and evaluated by TLC on recorded extractions",
            "TLC exhaustively checks refusal-without-trailer, rows = requested table's rows after the trailer in order, "
            "and expanded/compressed agreement over every file of <= 5 (thorough 6) logical rows; synthetic real files "
            "(random index assignments, interleaved tables, packaged and generated layouts, position-coded rows, "
            "ASCII/EBCDIC, blocked/unblocked, both forms, missing trailer, unconfigured table) are read by "
            "IpmParamReader and mci_ipm_param_to_csv and TLC decides every returned row set.",
            TB + "The csv module parses what csv.DictWriter wrote.", "3 C18"),
    'C19': ("TLA+ specification of a conversion as a composition (Reading_A' ; Layout_B ; writer file; per-record "
            "re-encoding for parameter files) evaluated by TLC on the real tools' input and output files; observed "
            "readings and the return conversion compared",
            "All 9 ordered pairs of {latin_1, cp500, cp037} x {vbs,1014}^2 through mci_ipm_encode and "
            "mci_ipm_param_encode (function and cli_run on real files), the fixed pairs of mideu convert and paramconv: "
            "TLC decides that the input reads as Reading_A', that the output file is the writer file of Layout_B of those "
            "dictionaries (resp. of the re-encoded records) and reads back as Reading_B; the harness compares the two "
            "observed dictionary lists under the standard configuration and the bytes of the return conversion.",
            TB + "For mideu convert only library-packed PDS is generated (hand-made carrier strings are re-packed by "
            "design). File contents are seeded samples.", "3 C19"),
    'C20': ("TLA+ specification of the pipeline (row -> dict -> Layout -> writer file; output table equality on supplied "
            "columns) evaluated by TLC on the real tools' intermediate IPM file and output CSV",
            "Tables of 1..200 rows over all 35 configured MTI/DE/PDS output columns (typed numbers, ISO date-times, "
            "fixed and variable text with commas, quotes, spaces, boundary lengths, DE48 only without PDS columns) go "
            "through mci_csv_to_ipm and mci_ipm_to_csv as functions and via cli_run on real files, blocked/unblocked, "
            "latin_1/cp500; TLC decides that the IPM file is the writer file of Layout(dict(row)) and that every "
            "supplied cell comes back unchanged in the same row order.",
            TB + "CSV quoting is the csv module's on both sides; dateutil parses YYYY-MM-DD hh:mm:ss.", "3 C20"),
    'C13': ("TLA+ spec (PinBlock.tla over nibbles; Des.tla / Aes.tla transcribed from FIPS 46-3 / 197 with "
            "known-answer ASSUMEs) model-checked (MC_PinBlock) and evaluated by TLC on recorded to_bytes / from_bytes / "
            "to_enc_bytes / from_enc_bytes calls (Trace_Pin)",
            "TLC exhaustively checks PinOf(Iso0)=PinOf(Iso4)=pin and the block shapes for every PIN length 4..12 x PAN "
            "13..19; recorded calls over all PIN lengths, digit values, PAN lengths, supplied and unsupplied fills (600 / "
            "2000 consecutive blocks must not repeat a fill), TDES 16/24-byte and AES-128/192/256 keys are judged by "
            "TLC: clear blocks against the nibble construction, ciphertexts against TDesEcb / AesEcb computed in TLA+.",
            TB + "The technique is used here as an executable reference for one pure function (stated in DESIGN 4); "
            "freshness of the fill is observed, not decided.", "3 C13"),
    'C14': ("TLA+ spec (PinBlock.tla: Tsp, Decimalise, Pvv, Kcv, Combine, EncZmk over the TLA+ DES) model-checked "
            "(MC_PinBlock DecInv, MC_KeyMgmt) and evaluated by TLC on recorded calls (Trace_Pin)",
            "TLC exhaustively checks that decimalisation yields four decimal digits in order with 0..4 substituted "
            "digits, and that Combine is order-independent and cancels duplicates; recorded calculate_pvv / to_pvv / "
            "calculate_kcv / get_zone_master_key / get_enc_zone_master_key calls (PIN 4..12, PAN 12..19, index 0..9, "
            "keys 8/16/24 bytes, component lists with permutations and duplicates, and a corpus of keys needing 1,2,3,4 "
            "substituted digits) are recomputed by TLC.",
            TB + "Hex strings returned by the library are projected to nibble values.", "3 C14"),
}

PENDING = "check not built yet in this round (specification under construction; see DESIGN.md section 3)"


def main():
    props = [json.loads(x) for x in open(os.path.join(VERIF, 'properties.jsonl'))]
    checks, na = [], []
    for p in props:
        pid = p['id']
        if pid in CLAIMS:
            tech, text, note, ref = CLAIMS[pid]
            checks.append({
                'property_id': pid,
                'quick_cmd': './check %s --tier quick' % pid,
                'thorough_cmd': './check %s --tier thorough' % pid,
                'evidence_file': 'evidence/%s.json' % pid,
                'replay_cmd_template': './check %s --replay {path}' % pid,
                'engine': 'tlc+conformance',
                'level_claimed': {'category': 'model_checking', 'text': text, 'design_ref': 'DESIGN.md section ' + ref},
                'level_note': note,
                'technique': tech,
            })
        else:
            na.append({'property_id': pid, 'reason': PENDING})
    m = {
        'version': 1,
        'setup_cmd': 'mkdir -p .work replays evidence && /venv/bin/python -B -m harness.setup',
        'hooks': {'guard': 'CARDUTIL_VERIF', 'enable': 'none needed: no source hooks; the public API exposes the '
                  'abstract state (file bytes, return values, exception attributes)',
                  'baseline_off_cmd': BASELINE, 'source_commits': [], 'add_only': True},
        'engines': [{'name': 'tlc+conformance', 'path': 'harness/', 'serves_properties': sorted(CLAIMS),
                     'kind_free_text': 'explicit TLA+ specifications under spec/ checked by TLC (exhaustive small '
                     'instances, real-size enumeration), bound to the code by replay of TLC-generated behaviours and '
                     'by TLC validation of traces recorded from the real code'}],
        'checks': checks,
        'notes': 'See DESIGN.md. Exit codes: 0 held, 1 violation (VIOLATION line), 2 machinery failure.',
        'not_applicable': na,
    }
    with open(os.path.join(VERIF, 'MANIFEST.json'), 'w') as f:
        json.dump(m, f, indent=1)
    print('MANIFEST.json: %d checks, %d not claimed' % (len(checks), len(na)))


if __name__ == '__main__':
    main()
