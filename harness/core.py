"""Shared machinery: TLC runner, verdict collection, evidence, known findings, replay files.

Exit codes (DESIGN R5): 0 held / only known findings, 1 violation, 2 machinery failure.
"""
import hashlib
import json
import os
import re
import shutil
import subprocess
import sys
import tempfile
import time

VERIF = os.path.dirname(os.path.dirname(os.path.abspath(__file__)))
SPEC = os.path.join(VERIF, 'spec')
REPO = os.environ.get('CARDUTIL_REPO', '/repo')
JAR = '/opt/veriftools/tla/tla2tools.jar:/opt/veriftools/tla/CommunityModules-deps.jar'
NCPU = min(16, os.cpu_count() or 1)


class MachineryError(Exception):
    pass


def workdir(tag):
    d = os.path.join(VERIF, '.work', '%s-%d' % (tag, os.getpid()))
    shutil.rmtree(d, ignore_errors=True)
    os.makedirs(d)
    return d


def cleanup(d):
    shutil.rmtree(d, ignore_errors=True)


_STATS = re.compile(r'^(\d+) states generated, (\d+) distinct states found', re.M)
_SIMSTATS = re.compile(r'The number of states generated: (\d+)')
_TUPLE = re.compile(r'^<<"(REJECT|T|NOTE|B)", (.*)>>\s*$')


def parse_tla_value(s):
    """Parse a printed TLC value made of tuples, ints, strings, TRUE/FALSE, records into Python."""
    pos = 0

    def ws():
        nonlocal pos
        while pos < len(s) and s[pos] in ' \n\t':
            pos += 1

    def val():
        nonlocal pos
        ws()
        if s.startswith('<<', pos):
            pos += 2
            out = []
            ws()
            if s.startswith('>>', pos):
                pos += 2
                return out
            while True:
                out.append(val())
                ws()
                if s.startswith('>>', pos):
                    pos += 2
                    return out
                assert s[pos] == ',', (s, pos)
                pos += 1
        if s[pos] == '{':
            pos += 1
            out = []
            ws()
            if s[pos] == '}':
                pos += 1
                return out
            while True:
                out.append(val())
                ws()
                if s[pos] == '}':
                    pos += 1
                    return out
                assert s[pos] == ',', (s, pos)
                pos += 1
        if s[pos] == '[':
            pos += 1
            out = {}
            while True:
                ws()
                m = re.match(r'([A-Za-z_0-9]+) \|-> ', s[pos:])
                assert m, (s, pos)
                pos += m.end()
                out[m.group(1)] = val()
                ws()
                if s[pos] == ']':
                    pos += 1
                    return out
                assert s[pos] == ',', (s, pos)
                pos += 1
        if s[pos] == '"':
            e = pos + 1
            while s[e] != '"':
                e += 2 if s[e] == '\\' else 1
            r = s[pos + 1:e]
            pos = e + 1
            return r
        m = re.match(r'-?\d+', s[pos:])
        if m:
            pos += m.end()
            return int(m.group(0))
        m = re.match(r'TRUE|FALSE', s[pos:])
        if m:
            pos += m.end()
            return m.group(0) == 'TRUE'
        m = re.match(r'[A-Za-z_0-9]+', s[pos:])
        assert m, (s, pos)
        pos += m.end()
        return m.group(0)

    v = val()
    return v


class TlcResult:
    def __init__(self):
        self.generated = 0
        self.distinct = 0
        self.rejects = []      # parsed REJECT tuples
        self.tuples = []       # other parsed tuples (T / NOTE / B)
        self.ok = False        # TLC finished without error and (if any) postcondition held
        self.stdout = ''
        self.wall = 0.0
        self.coverage = {}


def run_tlc(module, cfg, wd, env=None, workers=1, timeout=1800, simulate=None, extra=None, xss=True,
            expect_fail=False, coverage=False, line_cb=None, xmx=None):
    """Run TLC on spec/<module>.tla with spec/<cfg> (cfg may be an absolute path of a generated cfg).

    Returns TlcResult. Raises MachineryError if TLC crashed / could not parse / timed out.
    A violated invariant/postcondition is NOT a machinery error: res.ok is False and res.stdout has the trace.
    """
    res = TlcResult()
    meta = tempfile.mkdtemp(prefix='meta-%s-' % module, dir=wd)
    cfgpath = cfg if os.path.isabs(cfg) else os.path.join(SPEC, cfg)
    cmd = ['java', '-XX:+UseParallelGC']
    if xss:
        cmd.append('-Xss512m')
    cmd += ['-Xmx%s' % (xmx or ('3g' if workers == 1 else '12g')), '-cp', JAR, 'tlc2.TLC', '-workers', str(workers), '-metadir', meta, '-noGenerateSpecTE',
            '-config', cfgpath]
    if simulate:
        cmd += ['-simulate', simulate]
    if coverage:
        cmd += ['-coverage', '1']
    if extra:
        cmd += list(extra)
    cmd.append(os.path.join(SPEC, module + '.tla'))
    e = dict(os.environ)
    e.pop('JAVA_TOOL_OPTIONS', None)
    if env:
        e.update(env)
    t0 = time.time()
    try:
        if line_cb is None:
            p = subprocess.run(cmd, cwd=SPEC, env=e, stdout=subprocess.PIPE, stderr=subprocess.STDOUT,
                               timeout=timeout, text=True)
            out = p.stdout
            rc = p.returncode
        else:
            p = subprocess.Popen(cmd, cwd=SPEC, env=e, stdout=subprocess.PIPE, stderr=subprocess.STDOUT, text=True)
            keep = []
            pending = None          # TLC wraps long values over several lines: join until the brackets balance
            for line in p.stdout:
                if pending is not None:
                    pending += ' ' + line.strip()
                    if pending.count('<<') == pending.count('>>'):
                        line_cb(pending)
                        pending = None
                elif re.match(r'<<\s*"(T|B)"', line):
                    if line.count('<<') == line.count('>>'):
                        line_cb(line)
                    else:
                        pending = line.strip()
                else:
                    keep.append(line)
            rc = p.wait(timeout=timeout)
            out = ''.join(keep)
    except subprocess.TimeoutExpired:
        raise MachineryError('TLC timed out after %ss on %s' % (timeout, module))
    finally:
        shutil.rmtree(meta, ignore_errors=True)
    res.wall = time.time() - t0
    res.stdout = out
    m = None
    for m in _STATS.finditer(out):
        pass
    if m:
        res.generated, res.distinct = int(m.group(1)), int(m.group(2))
    else:
        m = _SIMSTATS.search(out)
        if m:
            res.generated = res.distinct = int(m.group(1))
    for line in out.splitlines():
        mm = _TUPLE.match(line)
        if mm:
            try:
                v = parse_tla_value(line.strip())
            except Exception:
                raise MachineryError('cannot parse TLC output line: %r' % line[:300])
            (res.rejects if mm.group(1) == 'REJECT' else res.tuples).append(v)
    if coverage:
        for mm in re.finditer(r'^<(\w+) line \d+, col \d+ to line \d+, col \d+ of module (\w+)>: (\d+):(\d+)', out, re.M):
            res.coverage[mm.group(2) + '!' + mm.group(1)] = res.coverage.get(mm.group(2) + '!' + mm.group(1), 0) + int(mm.group(4))
    finished = 'Model checking completed. No error has been found.' in out or \
               (simulate and rc == 0)
    violated = ('is violated' in out) or bool(re.search(r'Postcondition \w+ .* is false', out)) or ('Postcondition' in out and 'violated' in out) or 'Invariant' in out and 'violated' in out
    if finished and rc == 0:
        res.ok = True
    elif violated or rc in (12, 13):
        res.ok = False
    else:
        if expect_fail and rc != 0 and ('Error:' in out):
            res.ok = False
        else:
            raise MachineryError('TLC failed (rc=%s) on %s:\n%s' % (rc, module, out[-3000:]))
    return res


def tlc_batch(module, cfg, wd, batch, name, workers=1, timeout=1800, env=None):
    """Write `batch` (a JSON-able dict with key 'traces') to a file and validate it with a Trace_* module.

    Contract with the TLA+ side: the register TLCGet(1) counts accepted traces, every rejected trace prints
    <<"REJECT", tid, l, clause, ...>>, POSTCONDITION = all accepted. Returns (accepted_ids, rejects, TlcResult).
    """
    path = os.path.join(wd, name + '.json')
    def strip(x):
        # keys starting with '_' are for the harness (descriptions, raw outcomes); TLC never sees them
        if isinstance(x, dict):
            return {k: strip(v) for k, v in x.items() if not k.startswith('_')}
        if isinstance(x, list):
            return [strip(v) for v in x]
        return x
    with open(path, 'w') as f:
        json.dump(strip(batch), f, separators=(',', ':'))
    e = {'TRACE_FILE': path}
    if env:
        e.update(env)
    res = run_tlc(module, cfg, wd, env=e, workers=workers, timeout=timeout)
    ntr = len(batch['traces'])
    m = re.search(r'<<"ACCEPTED", (\d+), (\d+)>>', res.stdout)
    if not m:
        raise MachineryError('trace spec %s did not report its acceptance register:\n%s' % (module, res.stdout[-3000:]))
    acc, seen = int(m.group(1)), int(m.group(2))
    rej_ids = set(r[1] for r in res.rejects)
    if seen != ntr or acc + len(rej_ids) != ntr:
        raise MachineryError('trace spec %s looked at %d of %d traces (accepted %d, rejected %d):\n%s'
                             % (module, seen, ntr, acc, len(rej_ids), res.stdout[-2000:]))
    os.unlink(path)
    return acc, res.rejects, res


def split(lst, n):
    n = max(1, min(n, len(lst)))
    k = (len(lst) + n - 1) // n
    return [lst[i:i + k] for i in range(0, len(lst), k)]


# ---------------------------------------------------------------- known findings

def load_known():
    """known_findings.txt: `finding: property=Cxx key=<token> <text>` and `fixed: property=Cxx <commit> <text>`."""
    out = {}
    p = os.path.join(VERIF, 'known_findings.txt')
    if not os.path.exists(p):
        return out
    for line in open(p):
        line = line.strip()
        if not line.startswith('finding:'):
            continue
        m = re.match(r'finding:\s+property=(C\d+)\s+key=(\S+)\s+(.*)', line)
        if m:
            out.setdefault(m.group(1), {})[m.group(2)] = m.group(3)
    return out


class Report:
    """Collects violations for one property run; prints the interface lines; writes evidence."""

    def __init__(self, pid, tier, seed):
        self.pid, self.tier, self.seed = pid, tier, seed
        self.t0 = time.time()
        self.violations = []     # (key, payload)
        self.known_hit = {}
        self.known = load_known().get(pid, {})
        self.states = 0
        self.transitions = 0
        self.traces = 0
        self.replayed = 0
        self.samples = []
        self.extra = {}
        self.assumptions = []
        self.notes = []
        self.exhaustive = False
        self.tlc_runs = []

    def add_tlc(self, name, res):
        self.states += res.distinct
        self.transitions += res.generated
        self.tlc_runs.append({'run': name, 'generated': res.generated, 'distinct': res.distinct,
                              'wall_s': round(res.wall, 2)})

    def sample(self, s, cap=4):
        if len(self.samples) < cap:
            self.samples.append(s)

    def violation(self, key, payload):
        """key: a stable token identifying the failing input/call-site class (matched against known findings)."""
        if key in self.known:
            self.known_hit.setdefault(key, payload)
            return
        self.violations.append((key, payload))

    def finish(self, write_evidence=True):
        os.makedirs(os.path.join(VERIF, 'replays'), exist_ok=True)
        os.makedirs(os.path.join(VERIF, 'evidence'), exist_ok=True)
        for key, text in self.known.items():
            if key in self.known_hit:
                print('KNOWN-FINDING: property=%s %s (%s)' % (self.pid, text, key))
        seen = set()
        nv = 0
        for key, payload in self.violations:
            nv += 1
            if key in seen or len(seen) >= 12:
                continue
            seen.add(key)
            blob = json.dumps({'property': self.pid, 'key': key, 'payload': payload, 'seed': self.seed,
                               'tier': self.tier}, sort_keys=True, default=repr)
            h = hashlib.sha1(blob.encode()).hexdigest()[:12]
            path = os.path.join(VERIF, 'replays', '%s-%s.json' % (self.pid, h))
            with open(path, 'w') as f:
                f.write(blob)
            print('VIOLATION property=%s replay=%s' % (self.pid, path))
            print('  clause=%s %s' % (key, json.dumps(payload, default=repr)[:600]))
        cov = {
            'states': max(1, self.states), 'transitions': max(1, self.transitions),
            'traces_validated_against_impl': self.traces,
            'replayed_behaviours': self.replayed,
            'samples': self.samples or ['(no sample recorded)'],
            'exhaustive': self.exhaustive,
            'tlc_runs': self.tlc_runs,
            'known_findings_seen': sorted(self.known_hit),
            'notes': self.notes,
        }
        cov.update(self.extra)
        ev = {'property_id': self.pid, 'tier': self.tier, 'seed': self.seed, 'level': 'model_checking',
              'coverage': cov, 'assumptions': self.assumptions,
              'wall_s': round(time.time() - self.t0, 2), 'violations': nv}
        if write_evidence:     # a --replay run re-examines one case; it must not replace the evidence of a full run
            with open(os.path.join(VERIF, 'evidence', self.pid + '.json'), 'w') as f:
                json.dump(ev, f, indent=1, default=repr)
        print('%s tier=%s seed=%d states=%d transitions=%d traces=%d replayed=%d violations=%d known=%d wall=%.1fs'
              % (self.pid, self.tier, self.seed, self.states, self.transitions, self.traces, self.replayed, nv,
                 len(self.known_hit), time.time() - self.t0))
        return 1 if nv else 0


def require_ok(res, what, min_states=20):
    """An exhaustive model-checking run of the specification itself must pass; if it does not, the machinery
    (the specification) is broken - that is exit 2, never a VIOLATION of the code."""
    if not res.ok:
        raise MachineryError('model checking of %s failed:\n%s' % (what, res.stdout[-4000:]))
    if res.distinct < min_states:
        # vacuity guard: an exhaustive instance that explores (almost) nothing decides nothing
        raise MachineryError('model checking of %s explored only %d states (vacuous instance?)' % (what, res.distinct))


def generic_replay(mod, rep, wd, payload):
    """All generation is seeded and deterministic: re-run the check with the recorded seed and tier on the working tree
    and keep the violations with the recorded key."""
    rep.tier, rep.seed = payload.get('tier', 'quick'), payload.get('seed', 0)
    mod.run(rep, wd, rep.tier, rep.seed)
    want = payload['key']
    rep.violations = [(k, p) for k, p in rep.violations if k == want]
    print('replayed by re-running the seeded check (seed=%s tier=%s); violations with key %s: %d'
          % (rep.seed, rep.tier, want, len(rep.violations)))
