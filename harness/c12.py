"""C12 - PDS sub-elements are packed into carrier elements and recovered without loss.

1. TLC exhaustive: MC_Pds at scaled constants - every ascending set of <= MaxItems tags x every value length: carriers
   within Cap, no item split, ascending order, greedy, unpack(pack(S)) = S.
2. code -> spec (Trace_Iso; Layout includes the packing into the configured carrier elements, Reading the TLV walk):
   the boundary sweep - every pair of value lengths putting the running carrier length in 985..1005 (quick: a sample
   of first lengths x all 21 sums; thorough: all ~20,000 pairs), zero-length values, values made of digits that look
   like tag/length headers, sets needing 1..5 carriers, random sets over packaged and generated carrier sets.
"""
import os

from . import core, drv, isoc, isocheck
from .c04 import write_cfg


def owner(clause):
    return True


def headerlike(n, k):
    s = ('%04d%03d' % (k % 10000, 5) + '00000') * (n // 12 + 1)
    return s[:n]


def _drive(args):
    seed, cfgspec, codec, kind, lo, hi, l1set = args
    bc = isocheck.get_config(cfgspec)
    alpha = isoc.alphabet(codec)
    ncar = sum(1 for b in bc if bc[b].get('field_processor') == 'PDS')
    out = []
    tid = 0
    if kind == 'pairs':
        for l1 in l1set:
            for s in range(971, 992):
                l2 = s - l1
                if not 0 <= l2 <= 992:
                    continue
                v1 = ('A' * l1) if (l1 + l2) % 3 else headerlike(l1, l1)
                v2 = ('b' * l2) if l2 % 2 else headerlike(l2, l2)
                m = {'MTI': '1240', 'PDS0001': v1, 'PDS0002': v2}
                if (l1 + s) % 4 == 0:
                    m['PDS0003'] = 'z' * ((l1 * 7) % 40)
                if (l1 + s) % 3 == 1:
                    # the same boundary in the second (third) carrier: fillers of 992 characters close the carriers before
                    m['PDS0000'] = 'f' * 992
                    if (l1 + s) % 2:
                        m['PDS0001'], m['PDS0002'], m['PDS0004'], m['PDS0005'] = 'g' * 992, v1, v2, m.pop('PDS0003', 'q')
                        m.pop('PDS0003', None)
                out.append(isocheck.roundtrip_trace(tid, m, bc, codec, bool(tid & 1),
                                                    'boundary pair: value lengths %d + %d (running length %d)' % (l1, l2, 14 + s)))
                tid += 1
    else:
        if cfgspec[0] == 'pkgvar':      # the packaged carrier assignment is used in this process just before
            isoc.iso8583.dumps({'MTI': '1240', 'PDS0001': 'warm-up'}, iso_config=isocheck.get_config(('pkg',)))
        for tid in range(lo, hi):
            r = drv.rng(seed, 'c12', cfgspec, codec, tid)
            m = {'MTI': '1240'}
            style = r.choice(('many-small', 'fill-carriers', 'zero', 'headerlike', 'mixed')) if tid % 12 else 'many-tiny'
            budget = ncar * 999
            used = 0
            tags = r.sample(range(1, 10000), r.choice((1, 2, 3, 6, 12, 30)) if style != 'many-tiny' else r.choice((130, 260, 400)))
            for t in sorted(tags):
                if style == 'many-tiny':
                    n = r.choice((0, 1, 2))
                elif style == 'many-small':
                    n = r.randrange(0, 60)
                elif style == 'fill-carriers':
                    n = r.choice((992, 985, 500, 492, 493, 300, r.randrange(0, 993)))
                elif style == 'zero':
                    n = r.choice((0, 0, 1))
                else:
                    n = r.choice((0, 1, 7, 100, 400, r.randrange(0, 993)))
                if used + 7 + n + 999 > budget:      # stay inside the capacity of the configured carriers
                    break
                used += 7 + n
                # values over the whole character set of the code page (national characters, controls) for a third
                v = headerlike(n, t) if style in ('headerlike', 'mixed') and t % 2 else \
                    isoc.rtext(r, n, alpha, 'any' if (t + tid) % 3 == 0 else 'safe')
                m['PDS%04d' % t] = v
            if r.random() < 0.4:
                b = r.choice([x for x in bc if x != '1' and not bc[x].get('field_processor') and
                              (bc[x].get('field_python_type') or 'string') == 'string'])
                m['DE' + b] = isoc.value_for(r, bc[b], alpha)
            out.append(isocheck.roundtrip_trace(tid, m, bc, codec, bool(tid & 1), 'PDS set (%s): %d tags' % (style, len(m) - 1)))
    return out


def run(rep, wd, tier, seed):
    rep.assumptions += ['TLC 1.8 evaluates the TLA+ text correctly', 'carrier elements are read from the configuration '
                        'in the working tree (field_processor == PDS)']
    cfg = write_cfg(os.path.join(wd, 'MC_Pds.cfg'),
                    'CONSTANTS Cap = 20 TagW = 2 LenW = 1 MaxItems = %d MaxVal = 9 NTags = %d\nSPECIFICATION Spec\n'
                    'INVARIANT PackInv\nINVARIANT SortInv\nCHECK_DEADLOCK FALSE\n' % ((4, 5) if tier == 'thorough' else (3, 5)))
    res = core.run_tlc('MC_Pds', cfg, wd, workers=core.NCPU, timeout=3000)
    core.require_ok(res, 'MC_Pds')
    rep.add_tlc('MC_Pds exhaustive (scaled constants)', res)
    if tier == 'thorough':
        l1s = list(range(0, 993))
    else:
        r = drv.rng(seed, 'c12-l1')
        l1s = sorted(set([0, 1, 2, 484, 485, 486, 492, 493, 494, 970, 971, 972, 985, 990, 991, 992] + [r.randrange(0, 993) for _ in range(24)]))
    jobs = []
    for i, part in enumerate(core.split(l1s, core.NCPU)):
        jobs.append((seed, ('pkg',), ('latin_1', 'cp500')[i % 2], 'pairs', 0, 0, part))
    nrand = 1200 if tier == 'thorough' else 120
    for cfgspec in (('pkg',), ('pkgvar', 0), ('pkgvar', 1), ('pkgshuf', 0), ('pkgshuf', 1), ('gen', 1200 + seed), ('gen', 1201 + seed)):
        for codec in ('latin_1', 'cp037'):
            for lo in range(0, nrand, 200):
                jobs.append((seed, cfgspec, codec, 'sets', lo, min(nrand, lo + 200), None))
    outs = isocheck._pool(_drive, jobs)
    tjobs = [(seed, cfgspec, codec, 'sets', 3000 + 100 * i, 3000 + 100 * i + (150 if tier == 'thorough' else 60), None)
             for i, (cfgspec, codec) in enumerate([(('pkg',), 'latin_1'), (('pkgvar', 0), 'cp037'), (('gen', 1200 + seed), 'latin_1'),
                                                   (('pkg',), 'cp037'), (('pkgshuf', 0), 'latin_1'), (('pkgvar', 1), 'cp037'),
                                                   (('pkg',), 'latin_1'), (('gen', 1201 + seed), 'cp037')])]
    jobs = jobs + tjobs
    outs = outs + isocheck.mark_threaded(isocheck.threaded('harness.c12', '_drive', tjobs))
    rep.extra['histories_driven_from_four_threads_at_once'] = sum(len(o) for o in outs[-len(tjobs):])
    groups = {}
    for j, o in zip(jobs, outs):
        g = groups.setdefault((j[1], j[2]), [])
        for t in o:
            t['tid'] = len(g)
            g.append(t)
    glist = [(k[0], k[1], v) for k, v in groups.items()]
    rep.extra['boundary_pairs'] = sum(1 for g in glist for t in g[2] if t['_desc'].startswith('boundary'))
    rep.sample({'trace': glist[0][2][0]['_desc']})
    rep.sample({'trace': glist[-1][2][-1]['_desc'], 'message': glist[-1][2][-1]['_m'][:160]})
    isocheck.validate(rep, wd, glist, owner, 'pds', maxbatch=400)
    rep.exhaustive = tier == 'thorough'


def replay(rep, wd, payload):
    isocheck.replay(rep, wd, payload, owner, 'pds')
