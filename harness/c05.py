"""C05 - 1014 unblocking: reads return the exact payload stream for every read sequence; the validating one-shot
unblocker inverts the blocker up to fill and refuses everything else.

1. TLC exhaustive: MC_Unblocker (impl-shaped refill/deliver machine refines the abstract read, terminates),
   MC_BlocksFun (one-shot functions: inversion, every cut, every trailer corruption).
2. spec -> code: UnblockInt at P = 1012 (every first read x every next size incl. no size, on a whole and on a
   cut-short input) and UnblockEnum (every cut length, every value of every trailer byte) replayed on the real code.
3. code -> spec: recorded read sequences / unblock_1014 calls with concrete bytes validated by Trace_Block.
"""
import os
from concurrent.futures import ProcessPoolExecutor

from . import core, drv
from .c04 import write_cfg, validate_batches
from .drv import P, T, CODE, render_blocks


def make_file(shape):
    """Blocked inputs with position-coded payload. shape 'whole4': 4 writer-shaped blocks; 'cut': 3 blocks with
    non-PAD trailers (Unblock1014 does not validate) followed by 500 payload bytes."""
    if shape == 'whole4':
        return render_blocks(CODE[:4 * P], 4)
    body = b''.join(CODE[j * P:(j + 1) * P] + b'\x0d\x0a' for j in range(3))
    return body + CODE[3 * P:3 * P + 500]


def stream_of(f):
    return b''.join(f[i:i + P] for i in range(0, len(f), P + T))


def _replay_reads(args):
    wd, part, shape, aset, nmax = args
    f = make_file(shape)
    stream = stream_of(f)
    cfg = write_cfg(os.path.join(wd, 'UnblockInt-%s-%d.cfg' % (shape, part)),
                    'CONSTANTS P = %d T = %d PAD = 64 FLen = %d NMax = %d\nCONSTANT AS = {%s}\nSPECIFICATION Spec\n'
                    'INVARIANT PosInv\nINVARIANT PrefixInv\nCHECK_DEADLOCK FALSE\n'
                    % (P, T, len(f), nmax, ', '.join(map(str, aset))))
    bad, count, sample = [], 0, []

    def on_line(line):
        nonlocal count
        _, a, c, n, start, ln = core.parse_tla_value(line.strip())
        count += 1
        sizes = ([] if a == 0 else [a] if c == 0 else [a // 2, a - a // 2]) + [n]
        try:
            outs = drv.run_unblocker(f, sizes)
            got = outs[-1]
        except BaseException as ex:  # noqa
            bad.append(('unblocker-read-exception', {'file': shape, 'reads': sizes, 'observed': drv.exc_outcome(ex)}))
            return
        if got != stream[start:start + ln]:
            key = 'unblocker-read-all' if n == 0 else 'unblocker-read-n'
            if len(bad) < 30:
                bad.append((key, {'file': shape, 'reads': sizes, 'expected_slice': [start, start + ln],
                                  'observed_len': len(got), 'observed_head': got[:16].hex()}))
            else:
                bad.append((key, None))
        if len(sample) < 1 and n > P and a > 0:
            sample.append({'behaviour': 'Unblock1014 over %s file: reads %s' % (shape, sizes),
                           'last_read_must_return_stream_slice': [start, start + ln]})

    res = core.run_tlc('UnblockInt', cfg, wd, workers=1, timeout=3000, line_cb=on_line)
    if not res.ok:
        raise core.MachineryError('UnblockInt invariant failed:\n' + res.stdout[-2000:])
    return {'gen': res.generated, 'dist': res.distinct, 'count': count, 'bad': bad, 'sample': sample}


def stream_replay(rep, wd, tier, seed):
    if tier == 'thorough':
        aset = list(range(0, P + 1))
    else:
        r = drv.rng(seed, 'c05-aset')
        base = {0, 1, 2, 3, P - 2, P - 1, P, 506, 1000}
        while len(base) < 24:
            base.add(r.randrange(0, P + 1))
        aset = sorted(base)
    nmax = 2 * P + 1
    jobs = []
    for shape in ('whole4', 'cut'):
        for i, p in enumerate(core.split(aset, core.NCPU // 2)):
            jobs.append((wd, i, shape, p, nmax))
    with ProcessPoolExecutor(len(jobs)) as ex:
        outs = list(ex.map(_replay_reads, jobs))
    total = 0
    for o in outs:
        rep.states += o['dist']
        rep.transitions += o['gen']
        total += o['count']
        for key, b in o['bad']:
            rep.violation(key, b or {'more': 'suppressed'})
        for s in o['sample']:
            rep.sample(s)
    rep.replayed += total
    rep.tlc_runs.append({'run': 'UnblockInt P=1012 streaming', 'behaviours': total, 'first_reads': len(aset),
                         'next_sizes': nmax + 1, 'files': 2})


def _replay_faults(args):
    wd, k, slack, pairvals, lead = args
    # slack = P: the last block holds fill only (data ends on a block boundary); content all-PAD for even k
    content = (b'@' * (k * P) if k % 2 == 0 else CODE[:k * P])
    if lead:
        # every block starts with these bytes (a line terminator picked up in a transfer would look the same): a cut
        # just behind a block boundary then leaves exactly them as surplus
        content = b''.join(lead + CODE[j * P:(j + 1) * P - len(lead)] for j in range(k))
    base = render_blocks(content[:k * P - slack], k)
    cfg = write_cfg(os.path.join(wd, 'UnblockEnum-%d-%d-%d.cfg' % (k, slack, len(lead))),
                    'CONSTANTS P = %d T = %d PAD = 64 K = %d Slack = %d PairVals = {%s}\nSPECIFICATION Spec\nINVARIANT RoundInv\n'
                    'CHECK_DEADLOCK FALSE\n' % (P, T, k, slack, pairvals))
    bad, count = [], 0

    def on_line(line):
        nonlocal count
        _, kind, x, t, v, exp = core.parse_tla_value(line.strip())
        count += 1
        if kind == 'cut':
            f = base[:x]
        elif kind == 'pair':
            i = (x - 1) * (P + T) + P
            f = base[:i] + bytes([t, v]) + base[i + 2:]
        else:
            i = (x - 1) * (P + T) + P + t - 1
            f = base[:i] + bytes([v]) + base[i + 1:]
        out, data = drv.run_oneshot_unblock(f)
        ok = out['kind'] == exp and (exp != 'ok' or data == stream_of(f))
        if not ok:
            key = 'unblock1014-%s-%s' % (kind, 'refused-valid' if exp == 'ok' else
                                         ('accepted-invalid' if out['kind'] == 'ok' else 'wrong-exception-class'))
            bad.append((key, {'blocks': k, 'fault': [kind, x, t, v], 'required': exp, '_observed': out}
                        if len(bad) < 30 else None))

    res = core.run_tlc('UnblockEnum', cfg, wd, workers=1, timeout=3000, line_cb=on_line)
    if not res.ok:
        raise core.MachineryError('UnblockEnum failed:\n' + res.stdout[-2000:])
    return {'gen': res.generated, 'dist': res.distinct, 'count': count, 'bad': bad}


def fault_replay(rep, wd, tier):
    ks = (1, 2, 3, 4) if tier == 'thorough' else (1, 2)
    # both trailer bytes replaced: every equal pair, and every ordered pair over these values (thorough: over all 256
    # values on the one-block file)
    hazardous = '0, 10, 13, 32, 36, 48, 63, 64, 65, 124, 192, 255'
    jobs = [(wd, k, 7 * k, hazardous, b'') for k in ks] + [(wd, k, P, hazardous, b'') for k in ks if k > 1]
    jobs += [(wd, 3, 5, '64', b'\n'), (wd, 3, 6, '64', b'\r\n'), (wd, 2, 4, '64', b'\x00\x00'), (wd, 2, 8, '64', b'@')]
    if tier == 'thorough':
        jobs.append((wd, 1, 3, ', '.join(str(v) for v in range(256)), b''))
    with ProcessPoolExecutor(len(jobs)) as ex:
        outs = list(ex.map(_replay_faults, jobs))
    ks = [j[1] for j in jobs]
    for k, o in zip(ks, outs):
        rep.states += o['dist']
        rep.transitions += o['gen']
        rep.replayed += o['count']
        for key, b in o['bad']:
            rep.violation(key, b or {'more': 'suppressed'})
        rep.tlc_runs.append({'run': 'UnblockEnum K=%d' % k, 'cases': o['count']})
    rep.sample({'fault_enumeration': 'unblock_1014 on a %s-block file: every cut 0..len, every value of every '
                'trailer byte, both trailer bytes replaced by every equal pair and every pair of hazardous values' % (ks,)})


def _drive_traces(args):
    seed, lo, hi = args
    traces = []
    for tid in range(lo, hi):
        r = drv.rng(seed, 'c05-trace', tid)
        nb = r.choice((0, 1, 1, 2, 2, 3))
        style = r.choice(('code', 'pad', 'mix', 'rand'))
        body = CODE[:nb * (P + T)] if style == 'code' else drv.content(r, nb * (P + T), style)
        tail = r.choice((0, 0, 1, 2, 500, P - 1, P, P + 1))
        f = body + drv.content(r, tail, 'rand' if style == 'code' else style)
        if tid % 4 == 3:
            # one-shot validator on an almost-valid file
            data = drv.content(r, r.randrange(0, 2 * P + 5), style if style != 'code' else 'rand')
            g = bytearray(render_blocks(data, drv.min_blocks(len(data)) + r.choice((0, 0, 1))))
            mut = r.choice(('none', 'none', 'cut', 'trailer', 'extend'))
            if mut == 'cut' and g:
                g = g[:r.randrange(len(g))]
            elif mut == 'trailer' and g:
                j = r.randrange(len(g) // (P + T))
                g[j * (P + T) + P + r.randrange(2)] = r.randrange(256)
            elif mut == 'extend':
                g += drv.content(r, r.choice((1, 2, P, P + 1)), 'pad')
            out, outdata = drv.run_oneshot_unblock(bytes(g))
            traces.append({'tid': tid, 'kind': 'unblock', 'file': list(g),
                           'events': [{'op': out['kind'], 'n': 0, 'bytes': list(outdata)}],
                           '_desc': 'unblock_1014 on %d bytes (%s)' % (len(g), mut), '_observed': out})
            continue
        sizes = []
        for _ in range(r.choice((1, 2, 3, 5, 8))):
            sizes.append(r.choice((0, 1, 2, 4, 4, P - 1, P, P + 1, 2 * P, r.randrange(1, 60), r.randrange(1, 3 * P))))
        if tid % 5 == 1:
            # a request far larger than any file ("give me everything"): the largest index, 2^63 - 1, 2^40, 2^31
            import sys
            sizes[r.randrange(len(sizes))] = r.choice((sys.maxsize, 2 ** 63 - 1, 1 << 40, 1 << 31, (1 << 31) - 1))
        ev = []
        clamp = lambda n: min(n, 2000000000)      # TLC integers are 32 bit; any request >= what remains means "all"
        try:
            outs = drv.run_unblocker(f, sizes)
            for n, o in zip(sizes, outs):
                ev.append({'op': 'read', 'n': clamp(n), 'bytes': list(o)})
        except BaseException as ex:  # noqa
            ev.append({'op': 'read', 'n': clamp(sizes[0]), 'bytes': [-1], '_exc': drv.exc_outcome(ex)['cls']})
        traces.append({'tid': tid, 'kind': 'unblocker', 'file': list(f), 'events': ev,
                       '_desc': 'Unblock1014 over %d-byte input (%s), reads %s' % (len(f), style, sizes)})
    return traces


def trace_validation(rep, wd, tier, seed):
    n = 3200 if tier == 'thorough' else 320
    chunks = core.split(list(range(n)), core.NCPU)
    with ProcessPoolExecutor(len(chunks)) as ex:
        batches = list(ex.map(_drive_traces, [(seed, c[0], c[-1] + 1) for c in chunks]))
    from . import isocheck
    batches += isocheck.mark_threaded(isocheck.threaded('harness.c05', '_drive_traces', [(seed, 10000 + 40 * k, 10000 + 40 * k + 40) for k in range(8)], procs=2))
    # more than 64 KiB delivered through one unblocker
    big = []
    for i, nblocks in enumerate((66, 70)):
        f = render_blocks(bytes((j * 11 + j // 253) % 253 + 1 for j in range(nblocks * P - 100)), nblocks)
        sizes = ([P] * (nblocks + 1)) if i == 0 else ([4, 1000, 6000, 60000, 1, P, 5000, 0])
        outs = drv.run_unblocker(f, sizes)
        big.append({'tid': 10 ** 6 + i, 'kind': 'unblocker', 'file': list(f),
                    'events': [{'op': 'read', 'n': n_, 'bytes': list(o)} for n_, o in zip(sizes, outs)],
                    '_desc': 'Unblock1014 over %d blocks (%d bytes), reads %s' % (nblocks, len(f), sizes[:8])})
    batches.append(big)
    # a real (buffered) file on disk, read a little and rewound before it is handed to the unblocker
    import os
    import io as _io
    from cardutil import mciipm as _m
    realf = []
    for i, nblocks in enumerate((9, 27)):
        f = render_blocks(bytes((j * 13 + j // 255) % 255 + 1 for j in range(nblocks * P - 33)), nblocks)
        path = os.path.join(wd, 'c05-real-%d.bin' % i)
        open(path, 'wb').write(f)
        with open(path, 'rb') as fh:
            if i == 0:
                fh.read(4)
            else:
                _m.ipm_info(fh)             # the usual sequence: inspect, rewind, read
            fh.seek(0)
            u = _m.Unblock1014(fh)
            sizes = [4, 700, 5000, 0] if i == 0 else [P] * 5 + [0]
            outs = [u.read() if n_ == 0 else u.read(n_) for n_ in sizes]
        os.unlink(path)
        realf.append({'tid': 2 * 10 ** 6 + i, 'kind': 'unblocker', 'file': list(f),
                      'events': [{'op': 'read', 'n': n_, 'bytes': list(o)} for n_, o in zip(sizes, outs)],
                      '_desc': 'Unblock1014 over a real file of %d blocks that was read and rewound before, reads %s' % (nblocks, sizes)})
    # an UNBUFFERED file (open(..., buffering=0)): a first unblocker looks at the head and is dropped, the same file
    # object is rewound and read through a second unblocker
    import gc
    for i, nblocks in enumerate((3, 12)):
        f = render_blocks(bytes((j * 19 + j // 241) % 241 + 1 for j in range(nblocks * P - 77)), nblocks)
        path = os.path.join(wd, 'c05-raw-%d.bin' % i)
        drv.spit(path, f)
        sizes = [4, 900, 2000, 0] if i == 0 else [P] * 4 + [0]
        ev = []
        fh = (open(path, 'rb', buffering=0) if i == 0 else _io.FileIO(path, 'r'))
        try:
            u1 = _m.Unblock1014(fh)
            u1.read(4)
            del u1
            gc.collect()
            fh.seek(0)
            u = _m.Unblock1014(fh)
            for n_ in sizes:
                o = u.read() if n_ == 0 else u.read(n_)
                ev.append({'op': 'read', 'n': n_, 'bytes': list(o)})
        except BaseException as ex:  # noqa
            ev.append({'op': 'read', 'n': sizes[len(ev)] if len(ev) < len(sizes) else 0, 'bytes': [-1], '_exc': drv.exc_outcome(ex)['cls']})
        finally:
            try:
                fh.close()
            except Exception:
                pass
            os.unlink(path)
        realf.append({'tid': 2 * 10 ** 6 + 10 + i, 'kind': 'unblocker', 'file': list(f), 'events': ev,
                      '_desc': 'Unblock1014 over an unbuffered file of %d blocks, after a first unblocker on the same file object was dropped, reads %s' % (nblocks, sizes)})
    # unblock_1014 on long inputs cut at multiples of 1024 / 4096 / 16384 / 65536 and next to them
    cuts = []
    base = render_blocks(bytes((j * 17 + j // 249) % 249 + 1 for j in range(70 * P - 5)), 70)
    for k, c in enumerate(sorted({m * q + d for q in (1024, 4096, 8192, 16384, 65536) for m in (1, 2, 3, 4) for d in (-1, 0, 1)
                                  if 0 < m * q + d < len(base)} | {len(base), len(base) - 1014})):
        g = base[:c]
        out, outdata = drv.run_oneshot_unblock(g)
        cuts.append({'tid': 3 * 10 ** 6 + k, 'kind': 'unblock', 'file': list(g), 'events': [{'op': out['kind'], 'n': 0, 'bytes': list(outdata)}],
                     '_desc': 'unblock_1014 on a 70-block file cut to %d bytes' % c, '_observed': out})
    batches.append(realf)
    batches += core.split(cuts, 6)
    rep.sample({'trace': batches[0][0]['_desc']})

    def describe(t, r):
        e = t['events'][min(r[2], len(t['events'])) - 1]
        return {'case': t['_desc'], 'event': r[2], 'clause': r[3], 'request': e.get('n'),
                'observed_len': len(e['bytes']), 'observed': t.get('_observed')}
    validate_batches(rep, wd, 'Trace_Block', 'Trace_Block.cfg', batches, 'unblock-trace', describe)


def _drive_ind(args):
    """real Unblock1014 objects with the wrapped file's position and the buffer length recorded after every read"""
    import io
    import sys
    from cardutil import mciipm
    seed, lo, hi = args
    out = []
    for tid in range(lo, hi):
        r = drv.rng(seed, 'c05-ind', tid)
        nb = r.choice((0, 1, 2, 3, 5, 9))
        tail = r.choice((0, 0, 1, 2, 500, P - 1, P, P + 1))
        data = bytes((j * 7 + tid) % 251 for j in range(nb * (P + T) + tail))
        f = drv.new_file(data)
        sizes = [r.choice((0, 1, 2, 4, 4, P - 1, P, P + 1, 2 * P, 3 * P + 7, r.randrange(1, 60), r.randrange(1, 3 * P),
                           sys.maxsize if tid % 7 == 3 else 5)) for _ in range(r.choice((1, 2, 3, 5, 8, 13)))]
        ev = []
        with drv.Env('ind', tid):
            u = mciipm.Unblock1014(f)
            if tid % 3 == 1:
                f.seek(0)            # the caller positions the file after wrapping it (e.g. after looking at its head)
            for n in sizes:
                try:
                    o = u.read() if n == 0 else u.read(n)
                    ev.append({'n': min(n, 2000000000), 'fpos': f.tell(), 'buf': len(u.buffer) if isinstance(getattr(u, 'buffer', None), (bytes, bytearray)) else -1,
                               'ret': len(o)})
                except BaseException as ex:  # noqa
                    ev.append({'n': min(n, 2000000000), 'fpos': -1, 'buf': -1, 'ret': -1, '_observed': drv.exc_outcome(ex)})
                    break
        out.append({'tid': tid, 'flen': len(data), 'events': ev,
                    '_desc': 'Unblock1014 over %d bytes, reads %s: (file position, buffer length, returned length) after each' % (len(data), sizes)})
    return out


def induction(rep, wd, tier, seed):
    """unbounded statement: Apalache discharges the inductive invariant of the implementation-shaped model
    UnblockIntInd; Trace_UnblockInd replays real executions through that model (state binding)."""
    import subprocess
    import time
    outd = os.path.join(wd, 'apalache')
    done = []
    for name, args in (('Init => IndInv', ['--init=Init', '--inv=IndInv', '--length=0']),
                       ('IndInv /\\ Next => IndInv\'', ['--init=IndInit', '--inv=IndInv', '--length=1'])):
        t0 = time.time()
        try:
            p = subprocess.run(['apalache-mc', 'check'] + args + ['--out-dir=' + outd, 'UnblockIntInd.tla'], cwd=core.SPEC,
                               stdout=subprocess.PIPE, stderr=subprocess.STDOUT, text=True, timeout=900)
        except subprocess.TimeoutExpired:
            raise core.MachineryError('Apalache timed out on ' + name)
        if 'EXITCODE: OK' not in p.stdout:
            raise core.MachineryError('Apalache did not discharge %s:\n%s' % (name, p.stdout[-1500:]))
        done.append({'obligation': name, 'wall_s': round(time.time() - t0, 1)})
    n = 1600 if tier == 'thorough' else 240
    chunks = core.split(list(range(n)), core.NCPU)
    with ProcessPoolExecutor(len(chunks)) as ex:
        batches = list(ex.map(_drive_ind, [(seed, c[0], c[-1] + 1) for c in chunks]))
    follows = [True]

    def one(i):
        return core.tlc_batch('Trace_UnblockInd', 'Trace_UnblockInd.cfg', wd, {'traces': batches[i]}, 'ind-batch%d' % i, workers=1)
    from concurrent.futures import ThreadPoolExecutor
    with ThreadPoolExecutor(min(core.NCPU, len(batches))) as ex:
        outs = list(ex.map(one, range(len(batches))))
    for i, (acc, rejects, res) in enumerate(outs):
        rep.add_tlc('Trace_UnblockInd batch %d' % i, res)
        rep.traces += len(batches[i])
        by_id = {t['tid']: t for t in batches[i]}
        for rj in rejects:
            t = by_id[rj[1]]
            e = t['events'][min(rj[2], len(t['events'])) - 1]
            if rj[3] == 'returned-length-differs':
                rep.violation('unblock-ind:%s' % rj[3], {'case': t['_desc'], 'event': rj[2], 'clause': rj[3], 'request': e['n'],
                                                       'observed_returned_len': e['ret'], 'observed': e.get('_observed')})
            else:
                # the code no longer refills the way the model does: not a violation of C05 (what is returned decides
                # that), but the unbounded proof then says nothing about this code any more
                follows[0] = False
    rep.extra['apalache_inductive_invariant'] = {
        'module': 'spec/UnblockIntInd.tla', 'discharged': done,
        'meaning': 'for blocked inputs of any length (whole or cut anywhere), any number of reads and request sizes over all '
                   'naturals, every read returns exactly the requested number of payload bytes or all that remain',
        'real_executions_replayed_through_the_model': sum(len(b) for b in batches),
        'code_follows_the_modelled_refill_discipline': follows[0]}
    if not follows[0]:
        rep.notes.append('Unblock1014 no longer refills its buffer the way spec/UnblockIntInd.tla does (file position / buffer '
                         'length differ after a read): the Apalache result is about the model only; the returned data are '
                         'judged by Trace_Block and UnblockInt as before')


def model_check(rep, wd, tier):
    big = tier == 'thorough'
    cfg = write_cfg(os.path.join(wd, 'MC_Unblocker.cfg'),
                    'CONSTANTS P = %d T = 2 PAD = 0 MaxBlocks = %d MaxReads = %d MaxSize = %d\nSPECIFICATION FairSpec\n'
                    'INVARIANT UBufInv\nINVARIANT UPosInv\nPROPERTY MCReadProp\nPROPERTY ReadTerminates\n'
                    'CHECK_DEADLOCK FALSE\n' % ((4, 3, 4, 9) if big else (3, 3, 3, 7)))
    res = core.run_tlc('MC_Unblocker', cfg, wd, workers=core.NCPU, timeout=2400)
    core.require_ok(res, 'MC_Unblocker')
    rep.add_tlc('MC_Unblocker exhaustive (safety + termination)', res)
    cfg = write_cfg(os.path.join(wd, 'MC_BlocksFun.cfg'),
                    'CONSTANTS P = 3 T = 2 PAD = 0 MaxData = %d\nSPECIFICATION Spec\nINVARIANT InvertInv\n'
                    'INVARIANT CutInv\nINVARIANT TrailerInv\nCHECK_DEADLOCK FALSE\n' % (10 if big else 8))
    res = core.run_tlc('MC_BlocksFun', cfg, wd, workers=core.NCPU, timeout=2400)
    core.require_ok(res, 'MC_BlocksFun')
    rep.add_tlc('MC_BlocksFun exhaustive', res)


def run(rep, wd, tier, seed):
    rep.assumptions += ['TLC 1.8 evaluates the TLA+ text correctly', 'wrapped file objects: in-memory buffers, real files, pipe-like streams, gzip file objects (harness/drv.py)',
                        'read(0) written explicitly and negative sizes are outside the statement (not generated)']
    model_check(rep, wd, tier)
    induction(rep, wd, tier, seed)
    stream_replay(rep, wd, tier, seed)
    fault_replay(rep, wd, tier)
    trace_validation(rep, wd, tier, seed)
    rep.exhaustive = tier == 'thorough'


def replay(rep, wd, payload):
    p = payload['payload']
    if 'reads' in p and 'expected_slice' in p:
        f = make_file(p['file'])
        got = drv.run_unblocker(f, p['reads'])[-1]
        lo, hi = p['expected_slice']
        if got != stream_of(f)[lo:hi]:
            rep.violation(payload['key'], p)
    else:
        import sys
        core.generic_replay(sys.modules[__name__], rep, wd, payload)
