"""ISO8583 side of the harness: export of configuration / codec tables (DESIGN R4), projection of observables
to the uniform JSON shapes of spec/Iso8583.tla, drivers for dumps / loads, message generators."""
import codecs
import copy
import datetime
import decimal
import re

from . import drv   # noqa: F401  (sets sys.path to the working tree, silences library logging)
from .drv import Watchdog, exc_outcome, Headroom

from cardutil import iso8583
from cardutil.config import config as PKG

DE43_REGEX = PKG['bit_config']['43']['field_processor_config']
DIRECTIVES = set('yYmdHMS')


class Unsupported(Exception):
    pass


def parse_fmt(fmt):
    out = []
    i = 0
    while i < len(fmt):
        if fmt[i] != '%' or i + 1 >= len(fmt) or fmt[i + 1] not in DIRECTIVES:
            raise Unsupported('date format %r' % fmt)
        out.append(fmt[i + 1])
        i += 2
    return out


def export_cfg(bit_config):
    """Seq of 128 field records for the TLA+ side."""
    out = []
    for bit in range(1, 129):
        f = bit_config.get(str(bit))
        if not f or bit == 1:
            out.append({'ftype': 'NONE', 'flen': 0, 'py': 'string', 'proc': 'none', 'fmt': [], 'de43': False})
            continue
        py = f.get('field_python_type') or 'string'
        proc = f.get('field_processor') or 'none'
        if py not in ('string', 'int', 'long', 'decimal', 'datetime') or \
                proc not in ('none', 'PAN', 'PAN-PREFIX', 'PDS', 'ICC', 'DE43') or \
                f['field_type'] not in ('FIXED', 'LLVAR', 'LLLVAR'):
            raise Unsupported('field %s: %r' % (bit, f))
        de43 = False
        if proc == 'DE43' and f.get('field_processor_config'):
            if f['field_processor_config'] != DE43_REGEX:
                raise Unsupported('DE43 expression differs from the packaged one')
            de43 = True
        out.append({'ftype': f['field_type'], 'flen': int(f.get('field_length') or 0), 'py': py, 'proc': proc,
                    'fmt': parse_fmt(f.get('field_date_format', '%y%m%d')) if py == 'datetime' else [],
                    'de43': de43})
    return out


def codec_table(name):
    """byte -> code point (or -1) of a single-byte codec, from the interpreter."""
    out = []
    for b in range(256):
        try:
            s = bytes([b]).decode(name)
            out.append(ord(s) if len(s) == 1 else -1)
        except UnicodeDecodeError:
            out.append(-1)
    return out


def consts(bit_config, codec):
    return {'cfg': export_cfg(bit_config), 'dec': codec_table(codec)}


# ------------------------------------------------------------------ projection

def pkey(k):
    if k == 'MTI':
        return {'kind': 'MTI', 'n': 0, 's': []}
    if k == 'ICC_DATA':
        return {'kind': 'ICC_DATA', 'n': 0, 's': []}
    m = re.fullmatch(r'DE(\d+)', k)
    if m and len(m.group(1)) <= 3 and str(int(m.group(1))) == m.group(1):
        return {'kind': 'DE', 'n': int(m.group(1)), 's': []}
    if k.startswith('DE43_'):
        return {'kind': 'DE43', 'n': 0, 's': [ord(c) for c in k[5:]]}
    if k.startswith('PDS'):
        return {'kind': 'PDS', 'n': 0, 's': [ord(c) for c in k[3:]]}
    if k.startswith('TAG'):
        return {'kind': 'TAG', 'n': 0, 's': [ord(c) for c in k[3:]]}
    return {'kind': 'OTHER', 'n': 0, 's': [ord(c) for c in k]}


def pval(v):
    if isinstance(v, bool):
        return {'t': 'x', 'v': []}
    if isinstance(v, str):
        return {'t': 's', 'v': [ord(c) for c in v]}
    if isinstance(v, int):
        return {'t': 'i' if v >= 0 else 'ineg', 'v': [ord(c) for c in str(abs(v))]}
    if isinstance(v, (bytes, bytearray)):
        return {'t': 'b', 'v': list(v)}
    if isinstance(v, datetime.datetime):
        if v.tzinfo is not None:
            return {'t': 'x', 'v': []}
        return {'t': 'dt', 'v': [v.year, v.month, v.day, v.hour, v.minute, v.second, v.microsecond]}
    if isinstance(v, decimal.Decimal):
        if v.is_finite():
            sign, digits, exp = v.as_tuple()
            if sign == 0 and exp <= 0:
                return {'t': 'dec', 'v': [-exp] + [48 + d for d in digits]}
            if sign == 0 and 0 < exp <= 30:
                # 7E+2 is the number 700: projected to its plain digits (scale 0)
                return {'t': 'dec', 'v': [0] + [48 + d for d in digits] + [48] * exp}
        return {'t': 'x', 'v': []}
    return {'t': 'x', 'v': []}


def pdict(d):
    return [{'k': pkey(k), 'v': pval(v)} for k, v in d.items()]


def event(op, m=None, b=b'', kind='', d=None, rt=False, secret=''):
    return {'op': op, 'm': pdict(m) if m else [], 'bytes': list(b), 'kind': kind, 'd': pdict(d) if d else [], 'rt': rt,
            'secret': [ord(c) for c in secret]}


# ------------------------------------------------------------------ drivers

def _pick(n, *key):
    import zlib
    return zlib.crc32(repr(key).encode()) % n


def cfg_as(bit_config, k):
    """the same configuration handed over as another kind of mapping (k = 0: the dict itself)"""
    import collections
    import types
    if k == 1:
        return types.MappingProxyType(bit_config)            # a read-only view (site layout that must not be changed)
    if k == 2:
        return collections.OrderedDict(bit_config)
    if k == 3:
        return collections.ChainMap({}, bit_config)          # overrides (none) in front of a base layout
    if k == 4:
        return derived_cfg(bit_config)
    return bit_config


_DERIVED = {}
_PRED = {'FIXED': 'LLVAR', 'LLVAR': 'LLLVAR', 'LLLVAR': 'LLVAR'}
_EDITED = ('field_type', 'field_processor', 'field_python_type', 'field_date_format')


def derived_cfg(bit_config):
    """The same configuration reached the way a site arrives at it: an earlier layout (other length kinds, no field
    processors, no value types) was in use for a while - one message per element written and read back - then the site
    copied it (copy.deepcopy) and edited every element to today's definition.  In every documented key the result
    equals `bit_config`; whatever the library left behind in the earlier layout's dictionaries travels with the copy."""
    import threading
    key = (id(bit_config), threading.get_ident())
    hit = _DERIVED.get(key)
    if hit is not None and hit[0] is bit_config:
        return hit[1]
    base = copy.deepcopy(dict(bit_config))
    for bit, d in base.items():
        if not isinstance(d, dict):
            continue
        if d.get('field_type') in _PRED:
            d['field_type'] = _PRED[d['field_type']]
        d.pop('field_processor', None)
        d.pop('field_python_type', None)
    for bit, d in base.items():
        if not isinstance(d, dict) or str(bit) == '1':
            continue
        try:
            n = max(1, min(int(d.get('field_length', 1)), 12))
            for enc in ('latin_1', 'cp500'):
                b = iso8583.dumps({'MTI': '1144', 'DE%s' % bit: '1' * n}, encoding=enc, iso_config=base)
                iso8583.loads(b, encoding=enc, iso_config=base)
        except Exception:  # noqa - the earlier layout's traffic is not judged
            pass
    derived = copy.deepcopy(base)
    for bit, d in derived.items():
        orig = bit_config[bit]
        if not isinstance(d, dict):
            continue
        for k in _EDITED:
            if k in orig:
                d[k] = copy.deepcopy(orig[k])
            else:
                d.pop(k, None)
    _DERIVED[key] = (bit_config, derived)
    return derived


def do_dumps(m, encoding, bit_config, hex_bitmap):
    m0 = copy.deepcopy(m)
    cfgk = _pick(9, 'cfgd', sorted(m0, key=str)[:5], encoding) if isinstance(bit_config, dict) else 0
    try:
        with Watchdog(5.0):
            m1 = copy.deepcopy(m)
            b = iso8583.dumps(m1, encoding=encoding, iso_config=cfg_as(bit_config, cfgk if cfgk < 5 else 0), hex_bitmap=hex_bitmap)
            if _pick(7, 'again', len(b) if isinstance(b, (bytes, bytearray)) else 0, encoding) == 3:
                # the same dictionary object handed to dumps a second time (the first call may have added to it)
                b2 = iso8583.dumps(m1, encoding=encoding, iso_config=bit_config, hex_bitmap=hex_bitmap)
                if b2 != b:
                    raise RepeatDiffers('second dumps of the same dictionary object gave other bytes')
    except BaseException as ex:  # noqa
        o = exc_outcome(ex)
        e = event('dumps', m0, b'', o['kind'])
        e['_observed'] = o
        return e, None
    if not isinstance(b, (bytes, bytearray)):
        e = event('dumps', m0, b'', 'exc')
        e['_observed'] = {'kind': 'exc', 'cls': 'non-bytes result'}
        return e, None
    return event('dumps', m0, b, 'ok'), bytes(b)


class RepeatDiffers(Exception):
    pass


def do_loads(b, encoding, bit_config, hex_bitmap, rt=False, secs=4.0, secret=''):
    # the message as bytes, or as a mutable buffer that the caller re-uses straight after the call (recv_into style)
    argk = _pick(8, 'arg', len(b), bytes(b[:6]), encoding)
    arg = bytearray(b) if argk in (2, 5) else b
    cfgk = _pick(9, 'cfgl', len(b), bytes(b[-3:])) if isinstance(bit_config, dict) else 0
    try:
        with Watchdog(secs), Headroom(120, on=_pick(2, 'stack', len(b), bytes(b[4:9])) == 1):
            d = iso8583.loads(arg, encoding=encoding, iso_config=cfg_as(bit_config, cfgk if cfgk < 5 else 0), hex_bitmap=hex_bitmap)
            if isinstance(arg, bytearray):
                arg[:] = b'\xee' * len(arg)          # the buffer is re-used; what was returned may not change
            if argk == 3:
                # asked again: the same bytes give the same answer
                d2 = iso8583.loads(b, encoding=encoding, iso_config=bit_config, hex_bitmap=hex_bitmap)
                if pdict(d2) != pdict(d):
                    raise RepeatDiffers('second loads of the same bytes gave another dictionary')
    except BaseException as ex:  # noqa
        o = exc_outcome(ex)
        e = event('loads', None, b, o['kind'], None, rt, secret)
        e['_observed'] = o
        return e, None
    if not isinstance(d, dict):
        e = event('loads', None, b, 'exc', None, rt, secret)
        e['_observed'] = {'kind': 'exc', 'cls': 'non-dict result'}
        return e, None
    return event('loads', None, b, 'ok', d, rt, secret), d


# ------------------------------------------------------------------ generators

SAFE = [chr(c) for c in range(32, 127)]


def alphabet(codec):
    """characters every value may be drawn from under this codec (encodable, single byte)."""
    tbl = codec_table(codec)
    cps = sorted(set(c for c in tbl if c >= 0))
    return [chr(c) for c in cps]


def rtext(r, n, alpha, style=None):
    style = style or r.choice(('safe', 'safe', 'digits', 'any', 'spaces'))
    if style == 'safe':
        return ''.join(r.choice(SAFE) for _ in range(n))
    if style == 'digits':
        return ''.join(r.choice('0123456789') for _ in range(n))
    if style == 'spaces':
        return ''.join(r.choice(' \\A0_-') for _ in range(n))
    return ''.join(r.choice(alpha) for _ in range(n))


def var_len(r, cap):
    return r.choice((1, 1, 2, 9, 10, 11, cap - 1, cap, cap, r.randrange(1, cap + 1), r.randrange(1, min(cap, 60) + 1),
                     r.randrange(1, min(cap, 60) + 1)))


def rdatetime(r, fmt):
    dirs = parse_fmt(fmt)
    if 'H' in dirs and 'd' in dirs and 'm' in dirs and r.random() < 0.12:
        # wall-clock times that some time zones skip or repeat (last Sundays of March / October, 02:00-02:59): a date-time
        # element carries no zone, so these are ordinary values
        y = r.choice((2021, 2024, 1999, 2037)) if ('Y' in dirs or 'y' in dirs) else 1900
        mo = r.choice((3, 10))
        last = max(d for d in range(25, 32) if datetime.date(y, mo, d).weekday() == 6)
        return datetime.datetime(y, mo, last, 2, r.choice((0, 30, 59)) if 'M' in dirs else 0, r.choice((0, 59)) if 'S' in dirs else 0)
    if 'Y' in dirs:
        y = r.choice((1000, 1969, 1999, 2000, 2024, 9999, r.randrange(1000, 10000)))
    elif 'y' in dirs:
        y = r.choice((1969, 1970, 1999, 2000, 2024, 2068, r.randrange(1969, 2069)))
    else:
        y = 1900
    mo = r.randrange(1, 13) if 'm' in dirs else 1
    if 'd' in dirs:
        dmax = (datetime.date(y + (mo == 12), mo % 12 + 1, 1) - datetime.timedelta(days=1)).day if y < 9999 or mo < 12 else 31
        d = r.choice((1, dmax, r.randrange(1, dmax + 1)))
    else:
        d = 1
    return datetime.datetime(y, mo, d, r.choice((0, 23, r.randrange(24))) if 'H' in dirs else 0,
                             r.choice((0, 59, r.randrange(60))) if 'M' in dirs else 0,
                             r.choice((0, 59, r.randrange(60))) if 'S' in dirs else 0)


def ricc(r):
    if r.random() < 0.12:
        # chip data longer than 255 bytes (the configured field_length of the packaged ICC element is not a limit)
        out = b''
        while len(out) < r.choice((256, 300, 700, 990)) - 40:
            n = r.randrange(20, 40)
            out += b'\x9f\x10' + bytes([n]) + bytes(r.randrange(256) for _ in range(n))
        return out
    out = b''
    for _ in range(r.randrange(1, 6)):
        tag = r.choice((b'\x9f\x26', b'\x9f\x27', b'\x82', b'\x95', b'\x5f\x2a', b'\x9a', b'\x9f\x36', b'\x84',
                        b'\xbf', b'\xdf', b'\x1f', b'\x7f', b'\xff', b'\x3f',      # one-byte tags here (only 9F / 5F start two-byte tags)
                        bytes([r.choice([x for x in range(1, 256) if x not in (0x9f, 0x5f)])])))
        val = bytes(r.randrange(256) for _ in range(r.choice((0, 1, 2, 8, r.randrange(0, 40)))))
        out += tag + bytes([len(val)]) + val
    if r.random() < 0.15:
        out += b'\x00' + bytes(r.randrange(256) for _ in range(r.randrange(0, 4)))
    return out


def rde43(r, cap):
    if r.random() < 0.25:
        return rtext(r, r.randrange(1, min(cap, 99) + 1), SAFE, 'spaces' if r.random() < 0.5 else 'safe')
    def seg(n):
        return ''.join(r.choice('ABCDEFG HIJ\\KLMNOP') for _ in range(r.randrange(1, n))).strip() or 'X'
    name, addr, sub = seg(22), seg(30), seg(13)
    tail = ''.join(r.choice('0123456789 ') for _ in range(10)) + r.choice(('NSW', '   ', 'A Z')) + r.choice(('AUS', 'USA', 'X Y'))
    s = name + ' ' * r.randrange(3) + '\\' + addr + ' ' * r.randrange(3) + '\\' + sub + ' ' * r.randrange(3) + '\\' + tail
    return s[:cap] if len(s) > cap else s


ALLOW_UNENCODABLE = False      # switched on by the drivers that judge dumps() itself (C01, C02)


def value_for(r, f, alpha):
    """A well-formed value for field config f (dict from bit_config)."""
    ftype, flen = f['field_type'], int(f.get('field_length') or 0)
    py = f.get('field_python_type') or 'string'
    proc = f.get('field_processor')
    cap = {'FIXED': flen, 'LLVAR': 99, 'LLLVAR': 999}[ftype]
    if proc == 'ICC':
        return ricc(r)
    if py in ('int', 'long'):
        w = flen if ftype == 'FIXED' else min(cap, flen or 9)
        w = max(1, w)
        v = r.choice((0, 10 ** w - 1, 1, r.randrange(10 ** w), r.randrange(10 ** min(w, 3))))
        k = r.random()
        if k < 0.10:
            return str(v)                                   # the number given as text (what the CSV tools pass)
        if k < 0.22:
            return '0' * r.randrange(1, 9) + str(v)         # ... with leading zeros, also wider than the element
        return v
    if py == 'datetime':
        return rdatetime(r, f.get('field_date_format', '%y%m%d'))
    if py == 'decimal':
        scale = r.choice((0, 1, 2, 3))
        w = flen if ftype == 'FIXED' else 12
        digs = max(1, min(w - (1 if scale else 0) - 1, 9 if w < 30 else 37))
        n = r.choice((0, 0, r.randrange(10 ** digs), r.randrange(10 ** digs), 10 ** digs - 1))     # exact construction (scaleb would round to the context precision of 28 digits)
        d = decimal.Decimal((0, tuple(int(c) for c in str(n)), -scale))
        k = r.random()
        if k < 0.12 and n and scale == 0 and n % 100 == 0:
            return decimal.Decimal((0, tuple(int(c) for c in str(n // 100)), 2))        # the same number written as xE+2
        if k < 0.2 and w >= 12:
            return decimal.Decimal((0, (1 + n % 9,), -(7 + n % 2)))                      # 0.000000x: str() gives xE-7
        if k < 0.3 and n:
            return decimal.Decimal((0, tuple(int(c) for c in str(n % 1000 or 7)), 2))    # 700 written as 7E+2
        return d
    if proc == 'DE43':
        return rde43(r, cap)
    if proc in ('PAN', 'PAN-PREFIX'):
        n = r.randrange(10, 20) if ftype != 'FIXED' else flen
        return ''.join(chr(48 + (i * 7 + 3) % 10) for i in range(n)) if r.random() < 0.5 else rtext(r, n, alpha, 'digits')
    n = flen if ftype == 'FIXED' else var_len(r, cap)
    if ALLOW_UNENCODABLE and n >= 1 and r.random() < 0.03:
        # one character that the code page cannot express (typographic apostrophe, euro sign, a Polish letter, an accent
        # under ascii): there is no "text in the chosen encoding" for it - the message must be refused, not altered
        outside = [c for c in ('\u2019', '\u20ac', '\u0142', '\u00e9') if c not in alpha]
        if outside:
            t = rtext(r, n, alpha, 'safe')
            k = r.randrange(n)
            return t[:k] + r.choice(outside) + t[k + 1:]
    if r.random() < 0.06:
        return ' ' * n                      # a value that is all blanks is a value
    if r.random() < 0.04:
        return '0' * n
    return rtext(r, n, alpha)


def rpds(r, alpha, ncar):
    out = {}
    for _ in range(r.choice((1, 1, 2, 3, 5, 8))):
        tag = r.choice((r.randrange(10000), r.randrange(1, 200)))
        n = r.choice((0, 1, 3, 10, r.randrange(0, 120), r.randrange(0, 400)))
        style = r.choice(('safe', 'digits', 'any'))
        out['PDS%04d' % tag] = rtext(r, n, alpha, style)
    # stay within the capacity of the configured carriers (C12: "total within the capacity"): entries are dropped
    # until the documented packing (ascending tags, 999 characters per carrier, no entry split) needs at most ncar
    while out and _carriers_needed(out) > max(1, ncar):
        out.pop(sorted(out)[-1])
    return out


def _carriers_needed(items):
    n, cur = 0, 0
    for k in sorted(items):
        w = 7 + len(items[k])
        if cur and cur + w > 999:
            n, cur = n + 1, 0
        cur += w
    return n + (1 if cur else 0)


def gen_message(r, bit_config, alpha, maxbits=12):
    """A well-formed message over a random subset of the configured elements."""
    m = {'MTI': '%04d' % r.choice((1240, 1442, 1644, 1740, r.randrange(10000)))}
    bits = [b for b in bit_config if b != '1' and 2 <= int(b) <= 128]
    carriers = [b for b in bits if bit_config[b].get('field_processor') == 'PDS']
    chosen = r.sample(bits, min(len(bits), r.randrange(0, maxbits + 1)))
    use_pds = carriers and r.random() < 0.5
    for b in chosen:
        f = bit_config[b]
        if f.get('field_processor') == 'PDS':
            if use_pds:
                continue
            # explicit carrier content: a strict PDS string
            items = rpds(r, alpha, 1)
            s = ''.join('%s%03d%s' % (k[3:], len(v), v) for k, v in sorted(items.items()))
            cap = 99 if f['field_type'] == 'LLVAR' else 999
            if f['field_type'] == 'FIXED' or len(s) > cap or not s:
                continue
            m['DE' + b] = s
            continue
        m['DE' + b] = value_for(r, f, alpha)
    if use_pds:
        items = rpds(r, alpha, len(carriers))
        m.update(items)
        cs = sorted(carriers, key=int)
        if len(cs) >= 2 and sum(7 + len(v) for v in items.values()) <= 900 and r.random() < 0.3:
            # PDS entries (they fit the first carrier) NEXT TO a directly supplied later carrier with other tags
            b = r.choice(cs[1:])
            f = bit_config[b]
            extra = {k: v for k, v in rpds(r, alpha, 1).items() if k not in items}
            s = ''.join('%s%03d%s' % (k[3:], len(v), v) for k, v in sorted(extra.items()))
            if f['field_type'] != 'FIXED' and s and len(s) <= (99 if f['field_type'] == 'LLVAR' else 999):
                m['DE' + b] = s
    return m


def message_exact(n, enc='latin_1'):
    """a well-formed message (packaged configuration) whose encoding is exactly n bytes, n >= 40"""
    m = {'MTI': '1240', 'DE3': '123456'}
    left = n - 26
    for de in ('DE72', 'DE127', 'DE111', 'DE54', 'PDS0001', 'PDS0002', 'PDS0003'):
        if left >= 3 + 999 + 3 + 4:
            if de.startswith('PDS'):
                m[de] = 'p' * 992            # fills one carrier element to exactly 999 characters
            else:
                m[de] = ('%s-%d ' % (de, n) * 200)[:999]
            left -= 1002
    # remainder 3..1004: one LLLVAR (3 + k) and, if needed, DE2 (2 + k) so that every remainder is reachable
    if left >= 1 + 3 + 3:
        k = min(999, left - 3 - 3)         # keep at least 3 bytes for DE2
        m['DE63'] = ('%d:' % n * 400)[:k]
        left -= 3 + k
    if left >= 3:
        m['DE2'] = '5' * (left - 2)
        left = 0
    assert left == 0, (n, left)
    b = iso8583.dumps(dict(m), encoding=enc)
    assert len(b) == n, (n, len(b))
    return m


# ------------------------------------------------------------------ reverse projection (replay files)

def unkey(k):
    kind, n, t = k['kind'], k['n'], ''.join(chr(c) for c in k['s'])
    return {'MTI': 'MTI', 'ICC_DATA': 'ICC_DATA'}.get(kind) or {'DE': 'DE%d' % n, 'DE43': 'DE43_' + t, 'PDS': 'PDS' + t,
                                                              'TAG': 'TAG' + t}.get(kind, t)


def unval(v):
    t, x = v['t'], v['v']
    if t == 's':
        return ''.join(chr(c) for c in x)
    if t in ('i', 'ineg'):
        return int(''.join(chr(c) for c in x)) * (-1 if t == 'ineg' else 1)
    if t == 'b':
        return bytes(x)
    if t == 'dt':
        return datetime.datetime(*x)
    if t == 'dec':
        return decimal.Decimal(int(''.join(chr(c) for c in x[1:]) or '0')).scaleb(-x[0])
    return None


def undict(entries):
    return {unkey(e['k']): unval(e['v']) for e in entries}
