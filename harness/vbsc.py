"""Shared by C03, C09, C11 (and the VBS-level parts of C07/C10): Trace_Vbs validation and MC_Vbs model checking."""
import os
from concurrent.futures import ProcessPoolExecutor

from . import core, drv
from .c04 import write_cfg, validate_batches
from .drv import P, CODE


def trace_cfg(wd, maxlen=None):
    maxlen = maxlen or drv.max_vbs_len()
    return write_cfg(os.path.join(wd, 'Trace_Vbs-%d.cfg' % maxlen),
                     'CONSTANTS P = 1012 T = 2 PAD = 64 MaxLen = %d\nSPECIFICATION TSpec\nPOSTCONDITION AllAccepted\n'
                     'CHECK_DEADLOCK FALSE\n' % maxlen)


def describe(t, r):
    i = min(r[2], len(t['events'])) - 1
    e = t['events'][i]
    return {'case': t['_desc'], 'event_index': r[2], 'clause': r[3], 'event_op': e['op'], 'event_out': e.get('out'),
            'event_n': e.get('n'), 'observed_len': len(e['bytes']), 'observed_head': bytes(x & 255 for x in e['bytes'][:24]).hex(),
            'observed': e.get('_observed')}


def validate(rep, wd, batches, prefix, keymap=None, maxlen=None):
    cfg = trace_cfg(wd, maxlen)
    before = len(rep.violations) + len(rep.known_hit)

    def desc(t, r):
        return describe(t, r)
    # rewrite keys through keymap (clause -> stable key) if given
    if keymap is None:
        validate_batches(rep, wd, 'Trace_Vbs', cfg, batches, prefix, desc)
    else:
        class R:  # adapter collecting raw violations first
            pass
        tmp = core.Report(rep.pid, rep.tier, rep.seed)
        tmp.known = {}
        validate_batches(tmp, wd, 'Trace_Vbs', cfg, batches, prefix, desc)
        rep.states += tmp.states
        rep.transitions += tmp.transitions
        rep.traces += tmp.traces
        rep.tlc_runs += tmp.tlc_runs
        rep.notes += tmp.notes
        for key, payload in tmp.violations:
            rep.violation(keymap(key, payload), payload)
    return len(rep.violations) + len(rep.known_hit) - before


def model_check(rep, wd, tier, invariants=('LayoutInv', 'ReadBackInv', 'TruncInv'), props=('OnceProp',)):
    big = tier == 'thorough'
    for blk in ('TRUE', 'FALSE'):
        for (p, maxlen, maxrecs) in ([(5, 7, 3), (7, 9, 2)] if big else [(5, 7, 2)]):
            cfg = write_cfg(os.path.join(wd, 'MC_Vbs-%s-%d.cfg' % (blk, p)),
                            'CONSTANTS P = %d T = 2 PAD = 2 MaxLen = %d MaxRecs = %d MaxFin = 3 GuardSecondClose = TRUE '
                            'Blk = %s\nSPECIFICATION Spec\n%s%sCHECK_DEADLOCK FALSE\n'
                            % (p, maxlen, maxrecs, blk, ''.join('INVARIANT %s\n' % i for i in invariants),
                               ''.join('PROPERTY %s\n' % i for i in props)))
            res = core.run_tlc('MC_Vbs', cfg, wd, workers=core.NCPU, timeout=3000)
            core.require_ok(res, 'MC_Vbs')
            rep.add_tlc('MC_Vbs exhaustive Blk=%s P=%d MaxLen=%d MaxRecs=%d' % (blk, p, maxlen, maxrecs), res)


def rec_content(r, n, style, off=0):
    if style == 'code':
        return CODE[off:off + n]
    if style == 'prefixlike':     # bytes that look like length prefixes / terminators
        return (b'\x00\x00\x00\x00\x00\x00\x00\x05@@@@' * (n // 12 + 1))[:n]
    if style == 'nested':         # the record's own content is length-prefixed data: a 4-byte big-endian count of what follows
        import struct
        if n < 5:
            return CODE[off:off + n]
        k = (n - 4, n, n - 4, 0, n - 5)[(n + off) % 5]
        return struct.pack('>I', k) + CODE[off:off + n - 4]
    return drv.content(r, n, style)


STYLES = ('code', 'code', 'pad', 'zero', 'mix', 'rand', 'prefixlike', 'nested')


def parallel(fn, jobs):
    with ProcessPoolExecutor(min(core.NCPU, max(1, len(jobs)))) as ex:
        return list(ex.map(fn, jobs))
