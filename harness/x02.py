"""X02 (specification growth, DESIGN 8.7): cardutil.BitArray - bit list <-> bytes in both endiannesses.  TLC explores
every byte string of 3 bytes over ten byte values (RoundTrip, Mirror) and prints each with its two bit lists; every one
is replayed on the real class (frombytes/tolist for both endiannesses, fromlist/tobytes).  Not registered in MANIFEST."""
import re

from . import core, drv  # noqa: F401

from cardutil.BitArray import BitArray


def run(rep, wd, tier, seed):
    lines = []
    res = core.run_tlc('BitArr', 'BitArr.cfg', wd, workers=1, line_cb=lines.append)
    core.require_ok(res, 'BitArr', min_states=1000)
    rep.add_tlc('BitArr exhaustive', res)
    for line in lines:
        v = core.parse_tla_value(line.strip())
        _, bs, big, little = v
        data = bytes(bs)
        for endian, want in (('big', big), ('little', little)):
            a = BitArray(endian=endian)
            a.frombytes(data)
            got = a.tolist()
            if got != want:
                rep.violation('bitarray-tolist-' + endian, {'bytes': data.hex(), 'required': want, 'observed': got})
        b = BitArray()
        b.fromlist(big)
        if b.tobytes() != data:
            rep.violation('bitarray-fromlist', {'bits': big, 'required': data.hex(), 'observed': b.tobytes().hex()})
        rep.replayed += 1
    rep.sample({'bytes': '80ff01', 'big_endian_bits_start': [True, False, False]})
    rep.exhaustive = True


def replay(rep, wd, payload):
    run(rep, wd, 'quick', 0)
