"""C16 - masking never discloses more than the first six and last four digits.

1. TLC exhaustive: MC_Card (Mode mask): MaskProps for every string of length 10..MaskMax over {digit, letter, mask
   character} and three mask characters; MC_Iso (shared) places PAN / PAN-PREFIX values in the round trip.
2. code -> spec: recorded mask() calls (length 10..40, arbitrary characters, every single mask character sampled)
   judged by Trace_Card; messages decoded by the real loads() under configurations that put the PAN / PAN-PREFIX
   processor on every variable-length element in turn, with position-distinct PANs: TLC (Trace_Iso) checks the returned
   value is the masked form / first nine characters and that the clear PAN appears nowhere in the result.
"""
import copy
import os
import sys

from . import core, drv, isoc, isocheck, c15
from .c04 import write_cfg, validate_batches
from .isoc import PKG

from cardutil import card


def owner(clause):
    return clause in ('clear-pan-in-result', 'reading-differs', 'rejected-a-must-accept', 'accepted-a-must-reject')


def dropped_bits(bit):
    """elements left out of a partial site configuration: the nearest two plain elements below `bit`, and element 3"""
    bc = PKG['bit_config']
    low = [b for b in sorted(bc, key=int) if 1 < int(b) < int(bit) and not bc[b].get('field_processor')]
    return sorted(set(low[-2:] + (['3'] if int(bit) > 3 else [])), key=int)


def masked_config(bit, proc, numeric=False, partial=False):
    bc = copy.deepcopy(PKG['bit_config'])
    bc[bit]['field_processor'] = proc
    if numeric:      # the processor on an element that is also typed as a number
        bc[bit]['field_python_type'] = 'int'
    if partial:      # a site configuration that lists only some elements
        for b in dropped_bits(bit):
            del bc[b]
    return bc


def _drive(args):
    seed, bit, proc, codec, numeric, partial = args
    if partial:
        return _drive_partial(seed, bit, proc, codec)
    bc = masked_config(bit, proc, numeric)
    if int(bit) % 2 == 0 and not numeric:
        # same configuration OBJECT: first used without the processor, then masking is switched on in place
        del bc[bit]['field_processor']
        warm = isoc.iso8583.dumps({'MTI': '1240', 'DE' + bit: '4000123412341234'}, encoding=codec, iso_config=bc)
        isoc.iso8583.loads(warm, encoding=codec, iso_config=bc)
        bc[bit]['field_processor'] = proc
    alpha = isoc.alphabet(codec)
    cap = 99 if bc[bit]['field_type'] == 'LLVAR' else 999
    out = []
    for tid in range(14 if not drv.THREADED else 160):
        r = drv.rng(seed, 'c16', bit, proc, tid)
        n = (10, 11, 12, 13, 16, 19, 19, 24, 40, min(cap, 99), 16, 17, 18, 15)[tid % 14]
        pan = ''.join('1234567890'[(i * 3 + tid) % 10] if i % 5 else '9876543210'[(i + tid) % 10] for i in range(n))
        if tid % 4 == 3:
            pan = isoc.rtext(r, n, alpha, 'safe').replace('*', '#')      # (a number whose hidden part already is the mask character "leaks" nothing)
        if tid in (4, 10, 13):      # repeated digits: the hidden middle also occurs elsewhere in the number
            pan = (('5' * 12 + '4444', '4' + '1' * 15, '12345637890' + '0' * 8)[tid % 3] * 3)[:n]
        if numeric:
            pan = ''.join('123456789'[(i * 7 + tid) % 9] for i in range(min(n, 19)))
            if tid % 3 == 1:
                pan = '000' + pan[3:]            # leading zeros are digits of the card number
        elif tid in (5, 11):        # a line feed / carriage return inside the element (EBCDIC 0x25 / 0x0d are ordinary bytes)
            pan = pan[:8] + ('\n' if tid == 5 else '\r') + pan[9:]
        m = {'MTI': '1240', 'DE' + bit: int(pan) if numeric else pan}
        others = [b for b in bc if b not in ('1', bit) and not bc[b].get('field_processor')]
        for b in r.sample(others, 3):
            m['DE' + b] = isoc.value_for(r, bc[b], alpha)
        t = isocheck.roundtrip_trace(tid, m, bc, codec, bool(tid & 1), '%s on DE%s, card number of %d characters' % (proc, bit, n),
                                     secret=pan if proc else '')
        out.append(t)
    return out


def _drive_partial(seed, bit, proc, codec):
    """messages that carry an element the (partial) configuration does not list, in front of the masked element: the
    bytes are produced under the complete configuration, decoding happens under the partial one"""
    full = masked_config(bit, proc)
    part = masked_config(bit, proc, partial=True)
    alpha = isoc.alphabet(codec)
    out = []
    drops = dropped_bits(bit)
    for tid in range(8):
        r = drv.rng(seed, 'c16part', bit, proc, tid)
        n = (16, 19, 13, 10, 16, 18, 15, 12)[tid]
        pan = ''.join('1234567890'[(i * 3 + tid) % 10] if i % 5 else '9876543210'[(i + tid) % 10] for i in range(n))
        m = {'MTI': '1240', 'DE' + bit: pan}
        if tid < 6:
            for b in ([drops[tid % len(drops)]] if tid < 4 else drops):
                m['DE' + b] = isoc.value_for(r, full[b], alpha)
        hexb = bool(tid & 1)
        _, data = isoc.do_dumps(m, codec, full, hexb)
        if data is None:
            continue
        e, d = isoc.do_loads(data, codec, part, hexb, secret=pan)
        out.append({'tid': tid, 'hex': hexb, 'events': [e], '_m': repr(m)[:400], '_d': repr(d)[:300] if d is not None else None,
                    '_desc': '%s on DE%s under a configuration that does not list DE%s; message carries %s' % (
                        proc, bit, ', DE'.join(drops), sorted(k for k in m if k != 'MTI'))})
    return out


class CfgSpec(tuple):
    pass


def run(rep, wd, tier, seed):
    rep.assumptions += ['TLC 1.8 evaluates the TLA+ text correctly', 'the configured mask character is "*"']
    cfg = write_cfg(os.path.join(wd, 'MC_Card.cfg'),
                    'CONSTANTS MaxLen = 1 MaskMax = %d Mode = "mask"\nSPECIFICATION Spec\nINVARIANT MaskInv\n'
                    'CHECK_DEADLOCK FALSE\n' % (13 if tier == 'thorough' else 11))
    res = core.run_tlc('MC_Card', cfg, wd, workers=core.NCPU, timeout=3000)
    core.require_ok(res, 'MC_Card mask')
    rep.add_tlc('MC_Card mask exhaustive', res)
    # mask() calls
    traces = []
    n = 3000 if tier == 'thorough' else 400
    for tid in range(n):
        r = drv.rng(seed, 'mask', tid)
        k = r.choice((10, 10, 11, 12, 14, 16, 19, 25, 40))
        s = ''.join(r.choice('0123456789') for _ in range(k)) if tid % 3 else ''.join(chr(r.choice((r.randrange(32, 127), r.randrange(160, 256), 42))) for _ in range(k))
        c = '*' if tid % 4 == 0 else chr(r.choice((r.randrange(33, 127), 35, 88, 0xb7)))
        if tid % 9 == 7:
            s = s[:8] + r.choice(('\n', '\r\n', '\t', '\x00', '\\', '.', '$')) + s[9:]
        if tid % 11 == 3 and tid % 4:
            c = r.choice(('\\', '.', '$', '^', '\n', '0', ' '))
        if tid % 9 == 4:         # repeated digits: the hidden middle also occurs at the start of the number
            s = (('5' * 12 + '4444', '4' + '1' * 15, '12345637890', '0' * 19)[tid % 4] + '7' * 30)[:max(k, 11)]
        kind, out = c15.call(card.mask, s, c) if tid % 4 else c15.call(card.mask, s)
        traces.append({'tid': tid, 'events': [c15.tev('mask', s, c, out if kind == 'ok' and isinstance(out, str) else '', kind)],
                       '_desc': 'mask(%r, %r)' % (s, c)})

    def describe(t, r):
        e = t['events'][r[2] - 1]
        return {'case': t['_desc'], 'observed_kind': e['kind'], 'observed': ''.join(chr(c) for c in e['out']), 'clause': r[3]}
    validate_batches(rep, wd, 'Trace_Card', 'Trace_Card.cfg', core.split(traces, 4), 'card', describe)
    rep.sample({'trace': traces[1]['_desc']})
    # decoding under masking configurations: every variable-length element in turn
    bc = PKG['bit_config']
    var = [b for b in bc if b != '1' and bc[b]['field_type'] != 'FIXED' and not bc[b].get('field_processor')
           and (bc[b].get('field_python_type') or 'string') == 'string']
    jobs = []
    for b in var:
        for proc in ('PAN', 'PAN-PREFIX'):
            for codec in (('latin_1', 'cp500') if tier == 'thorough' else ('latin_1' if int(b) % 2 else 'cp500',)):
                jobs.append((seed, b, proc, codec, False, False))
        if int(b) % 3 == 2 or tier == 'thorough':
            for proc in ('PAN', 'PAN-PREFIX'):
                jobs.append((seed, b, proc, 'latin_1', True, False))
    for b in var:
        if int(b) > 4 and (int(b) % 2 == 0 or tier == 'thorough'):
            jobs.append((seed, b, ('PAN', 'PAN-PREFIX')[(int(b) // 2) % 2], 'cp500' if int(b) % 4 == 0 else 'latin_1', False, True))
    outs = isocheck._pool(_drive, jobs)
    # four threads at once: masking configurations next to the SAME layout without any processor
    tjobs = []
    for i, b in enumerate(var[:8]):
        tjobs += [(seed + 500, b, ('PAN', 'PAN-PREFIX')[i % 2], 'latin_1', False, False), (seed + 500, b, None, 'latin_1', False, False)]
    jobs = jobs + tjobs
    outs = outs + isocheck.mark_threaded(isocheck.threaded('harness.c16', '_drive', tjobs, procs=4))
    rep.extra['masking_configurations'] = len(jobs)
    rep.extra['elements_given_the_processor'] = sorted(var, key=int)
    # one TLC batch per configuration: consts differ per job
    from concurrent.futures import ThreadPoolExecutor
    import collections
    other = collections.Counter()

    def one(i):
        j = jobs[i]
        c = isoc.consts(masked_config(j[1], j[2], j[4], j[5]), j[3])
        return core.tlc_batch('Trace_Iso', 'Trace_Iso.cfg', wd, {'consts': c, 'traces': outs[i]}, 'mask-%d' % i, workers=1)
    with ThreadPoolExecutor(core.NCPU) as ex:
        res = list(ex.map(one, range(len(jobs))))
    for j, o, (acc, rejects, tr) in zip(jobs, outs, res):
        rep.add_tlc('Trace_Iso %s on DE%s %s' % (j[2], j[1], j[3]), tr)
        rep.traces += len(o)
        by = {t['tid']: t for t in o}
        for r in rejects:
            t = by[r[1]]
            e = t['events'][min(r[2], len(t['events'])) - 1]
            payload = {'case': t['_desc'], 'codec': j[3], 'clause': r[3], 'message': t['_m'], 'result': t['_d'],
                       'observed_kind': e['kind']}
            if owner(r[3]):
                rep.violation('masking:%s' % r[3], payload)
            else:
                other[r[3]] += 1
    rep.tlc_runs = rep.tlc_runs[:3] + [{'run': 'Trace_Iso masking configurations', 'batches': len(jobs)}]
    for c, k in other.items():
        rep.notes.append('clause %s failed on %d traces; judged by another property' % (c, k))
    rep.sample({'trace': outs[0][0]['_desc'], 'result': outs[0][0]['_d']})
    tool_config(rep, wd, tier, seed)


def tool_config(rep, wd, tier, seed):
    """masking is switched on in a configuration FILE: which file a tool uses (--config-file, the CARDUTIL_CONFIG folder,
    the package) is specified in spec/ToolConfig.tla; TLC enumerates the 16 environments, each is replayed on get_config"""
    from . import x01
    was = rep.exhaustive
    x01.run(rep, wd, tier, seed)
    rep.exhaustive = was


def replay(rep, wd, payload):
    import sys
    core.generic_replay(sys.modules[__name__], rep, wd, payload)
