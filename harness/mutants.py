"""Mutation corpus for C07 (never hangs / crashes) and C08 (exact framing, exact acceptance): valid messages
and their structure-aware mutations.  This module only GENERATES inputs; the verdict on each recorded loads() call is
TLC's (Trace_Iso: LoadsVerdict over Reading(b))."""
import datetime

from . import drv, isoc, isocheck


def base_messages(bc, codec, seed, n):
    """Valid messages covering every processor of the configuration; values are position-distinct."""
    alpha = isoc.alphabet(codec)
    out = []
    bits = sorted((b for b in bc if b != '1'), key=int)
    special = [b for b in bits if bc[b].get('field_processor')]
    typed = [b for b in bits if bc[b].get('field_python_type')]
    for i in range(n):
        r = drv.rng(seed, 'base', codec, i)
        m = {'MTI': '%04d' % (1000 + i)}
        pick = set(r.sample(bits, min(len(bits), r.choice((2, 3, 5, 8)))))
        if special:
            pick.add(special[i % len(special)])
        if typed:
            pick.add(typed[i % len(typed)])
        k = 0
        for b in sorted(pick, key=int):
            f = bc[b]
            if f.get('field_processor') == 'PDS':
                continue
            v = isoc.value_for(r, f, alpha)
            if isinstance(v, str) and f.get('field_processor') is None:
                # position-distinct text so that a shifted reading changes a value
                v = ''.join('ABCDEFGHJKLMNPQRSTUVWXYZabcdefghijkmnopqrstuvwxyz'[(k + j) % 49] for j in range(min(len(v), 40)))
                if f['field_type'] == 'FIXED':
                    v = (v * 40)[:f['field_length']]
                k += 7
            m['DE' + b] = v
        for b in pick:
            if bc[b].get('field_processor') == 'ICC' and i % 2 == 0:
                m['DE' + b] = b'\x9f\x26\x08' + bytes(range(0xf8, 0x100)) + b'\x82\x02\x80\x00'
        if any(bc[b].get('field_processor') == 'PDS' for b in pick) or i % 3 == 0:
            for t in range(r.randrange(1, 4)):
                m['PDS%04d' % r.randrange(1, 9999)] = isoc.rtext(r, r.randrange(0, 30), alpha, 'safe')
        out.append(m)
    return out


def spans(b, bc, codec, hexb):
    """Structural positions of a VALID encoded message (input generation only): returns dict of lists of offsets."""
    hl = 36 if hexb else 20
    pos = {'bitmap': list(range(4, hl)), 'prefix': [], 'pdslen': [], 'pdstag': [], 'pdsend': [], 'tlvlen': [], 'mti': [0, 1, 2, 3],
           'typed': []}
    bm = bytes.fromhex(b[4:36].decode('ascii')) if hexb else b[4:20]
    p = hl
    for bit in range(2, 129):
        if not (bm[(bit - 1) // 8] >> (7 - (bit - 1) % 8)) & 1:
            continue
        f = bc.get(str(bit))
        if not f:
            break
        pl = {'FIXED': 0, 'LLVAR': 2, 'LLLVAR': 3}[f['field_type']]
        n = f['field_length']
        if pl:
            pos['prefix'].append(list(range(p, p + pl)))
            n = int(b[p:p + pl].decode(codec))
        body = p + pl
        if f.get('field_python_type') in ('int', 'long', 'datetime', 'decimal'):
            pos['typed'] += list(range(body, body + n))[:4] + list(range(body, body + n))[-2:]
        if f.get('field_processor') == 'PDS':
            q = body
            while q + 7 <= body + n:
                pos['pdslen'].append(list(range(q + 4, q + 7)))
                pos['pdstag'] += list(range(q, q + 4))
                q += 7 + int(b[q + 4:q + 7].decode(codec))
            if pl:
                pos['pdsend'].append((p, pl, body + n))
        if f.get('field_processor') == 'ICC':
            q = body
            while q < body + n:
                two = b[q] in (0x9f, 0x5f)
                if not two and b[q] == 0:
                    break
                q += 2 if two else 1
                if q >= body + n:
                    break
                pos['tlvlen'].append(q)
                q += 1 + b[q]
        p = body + n
    return pos


SUBST_CHARS = '-+ _0159A\x00\xa0\xb2'


def subst_bytes(codec, tier):
    """byte values substituted at structural positions."""
    if tier == 'thorough':
        return list(range(256))
    vals = set()
    for c in SUBST_CHARS:
        try:
            vals.add(c.encode(codec)[0])
        except UnicodeEncodeError:
            pass
    vals |= {0x00, 0xff, 0x9f, 0x5f, 0x40, 0x2d, 0x60, 0x7f, 0x80, 0x81, 0x0a, 0x20}
    return sorted(vals)


def mutants_of(b, bc, codec, hexb, r, tier, targeted=True):
    """yield (description, mutated bytes)"""
    sp = spans(b, bc, codec, hexb)
    vals = subst_bytes(codec, 'quick')
    allvals = subst_bytes(codec, tier)          # thorough: every byte value, on the length-carrying positions
    lengths = [q for grp in sp['prefix'] for q in grp] + [q for grp in sp['pdslen'] for q in grp] + sp['tlvlen']
    for q in lengths + sp['mti'] + sp['pdstag']:
        for v in (allvals if q in lengths else vals):
            if b[q] != v:
                yield 'byte %d := 0x%02x' % (q, v), b[:q] + bytes([v]) + b[q + 1:]
    # bitmap bytes: single bit flips (bits added / removed) and a few byte values
    for q in sp['bitmap']:
        if hexb:
            for v in b'0123456789abcdefABCDEFg\x00 ':
                if b[q] != v and (tier == 'thorough' or r.random() < 0.25):
                    yield 'hex bitmap char %d := %r' % (q, chr(v)), b[:q] + bytes([v]) + b[q + 1:]
        else:
            for bit in range(8):
                yield 'bitmap byte %d bit %d flipped' % (q - 4, bit), b[:q] + bytes([b[q] ^ (1 << bit)]) + b[q + 1:]
    if hexb:
        # pair-aligned replacements inside the hex bitmap (white space pairs, mixed pairs)
        for q in range(4, 36, 2):
            for pair in (b'  ', b'\t\t', b' 0', b'0 ', b'\n\n', b'0x', b'--'):
                if tier == 'thorough' or (q + pair[0]) % 3 == 0:
                    yield 'hex bitmap pair at %d := %r' % (q, pair), b[:q] + pair + b[q + 2:]
        yield 'hex bitmap with two white space pairs', b[:6] + b'    ' + b[10:]
    # ICC data that ends inside a tag: the last TLV is replaced by a tag prefix (message length prefix adjusted)
    # a sub-element carrier made longer (its own length prefix adjusted, so the outer framing stays consistent) by
    # filler that belongs to no sub-element: blanks, NULs, x40, zeros after the last sub-element
    for (p0, pl, end) in sp['pdsend']:
        cur = int(b[p0:p0 + pl].decode(codec))
        for fill in (' '.encode(codec), b'\x00', b'\x40', '0'.encode(codec)):
            for k in (1, 2, 3, 6, 7, 9):
                if cur + k < 10 ** pl:
                    yield 'sub-element carrier at %d extended by %d x %r' % (p0, k, fill), \
                        b[:p0] + ('%0*d' % (pl, cur + k)).encode(codec) + b[p0 + pl:end] + fill * k + b[end:]
    for q in sp['typed']:
        for v in vals[:: (2 if tier == 'thorough' else 3)]:
            if b[q] != v:
                yield 'typed content byte %d := 0x%02x' % (q, v), b[:q] + bytes([v]) + b[q + 1:]
    if targeted:
        # whole prefixes rewritten: lengths pointing before, at and past the end; signs, spaces, underscores
        for grp in sp['prefix'] + sp['pdslen']:
            w = len(grp)
            cur = int(b[grp[0]:grp[0] + w].decode(codec))
            rest = len(b) - (grp[0] + w)
            cands = {0, 1, cur - 1, cur + 1, rest, rest + 1, rest - 1, 10 ** w - 1}
            texts = set('%0*d' % (w, c) for c in cands if 0 <= c < 10 ** w)
            texts |= {'-' + '%0*d' % (w - 1, min(cur, 10 ** (w - 1) - 1)), '+' + '%0*d' % (w - 1, min(cur, 10 ** (w - 1) - 1)),
                      ' ' * (w - 1) + '%d' % (cur % 10), '%d' % (cur % 10) + ' ' * (w - 1), '-' * w, ' ' * w,
                      '-' + '0' * (w - 1), ('1_' + '0' * w)[:w], ('%d' % (cur % 10)) + '_' * (w - 1)}
            for t in sorted(texts):
                if len(t) == w:
                    try:
                        yield 'prefix at %d := %r' % (grp[0], t), b[:grp[0]] + t.encode(codec) + b[grp[0] + w:]
                    except UnicodeEncodeError:
                        pass
        for k in (1, 2, 3):
            yield 'truncated by %d' % k, b[:-k]
            yield 'extended by %d' % k, b + bytes([0x30 + k]) * k
        yield 'cut to header', b[:36 if hexb else 20]
        yield 'cut inside header', b[:11]
        yield 'bare MTI', b[:4]
        for k in (1, 8, 12, 15, 16):
            yield 'MTI and %d bitmap bytes without element bits' % k, b[:4] + (b'0' * (2 * k) if hexb else bytes(k))
        yield 'empty', b''
    # multi-point mutations
    for _ in range(6 if tier == 'quick' else 40):
        x = bytearray(b)
        for _ in range(r.randrange(1, 4)):
            kind = r.choice(('flip', 'ins', 'del', 'set'))
            q = r.randrange(len(x)) if x else 0
            if kind == 'flip' and x:
                x[q] ^= 1 << r.randrange(8)
            elif kind == 'ins':
                x[q:q] = bytes(r.randrange(256) for _ in range(r.randrange(1, 4)))
            elif kind == 'del' and x:
                del x[q:q + r.randrange(1, 4)]
            elif x:
                x[q] = r.choice(vals)
        yield 'multi-point mutation', bytes(x)


def random_inputs(r, n, codec):
    for _ in range(n):
        k = r.choice((0, 1, 4, 19, 20, 21, 36, 37, r.randrange(0, 120), r.randrange(0, 400)))
        style = r.choice(('rand', 'digits', 'mix'))
        if style == 'rand':
            yield 'random bytes', bytes(r.randrange(256) for _ in range(k))
        elif style == 'digits':
            yield 'random digits', ''.join(r.choice('0123456789') for _ in range(k)).encode(codec)
        else:
            yield 'digit header + random', ('%04d' % r.randrange(10000)).encode(codec) + bytes(r.choice((0, 0x80, 0xc0, 0x10, 0xff, 0x30)) for _ in range(16)) + \
                bytes(r.randrange(256) for _ in range(k))


def drive(args):
    """worker: returns traces (one loads event each) for one (config, codec, hex) and a slice of base messages."""
    seed, cfgspec, codec, hexb, tier, lo, hi, nbase, with_random = args
    bc = isocheck.get_config(cfgspec)
    bases = base_messages(bc, codec, seed, nbase)[lo:hi]
    traces = []
    tid = 0

    hangs = 0

    def add(desc, data, base):
        nonlocal tid, hangs
        if hangs >= 12:
            return            # the verdict of this job is settled (12 recorded hangs); do not wait for thousands more
        if tid % 97 == 13:
            drv.hazard(drv.rng(seed, 'hazard', tid))
        with drv.Env('mut', lo, tid):         # a third of the calls in another environment (drv.Env)
            e, d = isoc.do_loads(data, codec, bc, hexb, secs=4.0 if hangs < 3 else 1.5)
        if e['kind'] == 'hang':
            hangs += 1
        traces.append({'tid': tid, 'hex': hexb, 'events': [e], '_desc': desc, '_m': base,
                       '_d': repr(d)[:300] if d is not None else None})
        tid += 1

    for i, m in enumerate(bases):
        r = drv.rng(seed, 'mut', cfgspec, codec, hexb, lo + i)
        e, b = isoc.do_dumps(m, codec, bc, hexb)
        if b is None:
            continue
        if (lo + i) % 2 == 0:
            add('valid message', b, repr(m)[:300])
        for desc, x in mutants_of(b, bc, codec, hexb, r, tier):
            add(desc, x, repr(m)[:300])
        if (lo + i) % 2:
            add('valid message (decoded after its mutants)', b, repr(m)[:300])
    if lo == 0:
        # ICC (binary TLV) elements whose content ends inside a tag or inside a length
        iccbits = [b_ for b_ in bc if b_ != '1' and bc[b_].get('field_processor') == 'ICC']
        for ib in iccbits[:1]:
            # well-formed chip data full of bytes that are no characters of any 7-bit code page, next to text elements
            for k_, body in enumerate((b'\x9f\x26\x08' + bytes(range(0xf8, 0x100)) + b'\x82\x02\x80\x00',
                                       b'\x95\x05\x80\x80\x04\x80\x00' + b'\x9f\x10\x07\x06\x01\x0a\x03\xa4\xa0\x02',
                                       b'\x84\x07\xa0\x00\x00\x00\x04\x10\x10')):
                m = {'MTI': '1240', 'DE' + ib: body}
                txt = [b_ for b_ in bc if b_ != '1' and bc[b_]['field_type'] == 'FIXED' and not bc[b_].get('field_processor')
                       and not bc[b_].get('field_python_type')]
                for b_ in txt[k_:k_ + 2]:
                    m['DE' + b_] = 'T' * bc[b_]['field_length']
                e, b = isoc.do_dumps(m, codec, bc, hexb)
                if b is not None:
                    add('valid message with binary chip data %s' % body.hex(), b, repr(m)[:200])
            # chip data made of hundreds of the smallest TLVs (empty values, one-byte values), complete and ending inside a
            # tag: as many items as an element of the configured capacity can hold
            icap = min(int(bc[ib].get('field_length', 255)), 999 if bc[ib]['field_type'] == 'LLLVAR' else 99 if bc[ib]['field_type'] == 'LLVAR' else 255)
            for k_, unit in enumerate((b'\x01\x00', b'\x82\x00', b'\x9f\x26\x00', b'\x5a\x01\x11', b'\x01\x00')):
                for cut in (0, 1, 3, 4, 7, 9):
                    body = (unit * 500)[:icap - cut - k_]
                    m = {'MTI': '1240', 'DE' + ib: body}
                    e, b = isoc.do_dumps(m, codec, bc, hexb)
                    if b is not None:
                        add('chip data of %d bytes made of %s items' % (len(body), unit.hex()), b, '')
            for tail in (b'\x9f', b'\x5f', b'\x9f\x80', b'\x9f\x26', b'\x82', b'\x9f\x26\x05\x01', b'\xbf\x0c\x01\x00', b'\x1f', b'\xdf\x81'):
                for head in (b'', b'\x82\x02\x01\x02'):
                    m = {'MTI': '1240', 'DE' + ib: head + tail}
                    e, b = isoc.do_dumps(m, codec, bc, hexb)
                    if b is not None:
                        add('ICC content %s' % (head + tail).hex(), b, repr(m))
        # merchant-details elements (regular-expression split) holding a long run of one character and not fitting the
        # layout: the split must fail fast, whatever the character (carriage returns, line feeds, blanks, backslashes)
        d43 = [b_ for b_ in bc if b_ != '1' and bc[b_].get('field_processor') == 'DE43']
        for ib in d43[:1]:
            cap = 99 if bc[ib]['field_type'] == 'LLVAR' else 200
            for ch in ('\r', '\n', ' ', '\\', 'A', '\t', '\x0b', '0'):
                for shape in (0, 1, 2):
                    run = ch * (cap - 30)
                    v = (('SHOP' + run + 'END'), ('A\\B\\' + run + '\\'), (run + '\\\\\\1234567890XYZ   '))[shape][:cap]
                    m = {'MTI': '1240', 'DE' + ib: v}
                    try:
                        e, b = isoc.do_dumps(m, codec, bc, hexb)
                    except Exception:
                        b = None
                    if b is not None:
                        add('merchant details with a run of %d x %r (shape %d)' % (cap - 30, ch, shape), b, repr(m)[:200])
    if with_random:
        r = drv.rng(seed, 'rnd', cfgspec, codec, hexb, lo)
        for desc, x in random_inputs(r, with_random, codec):
            add(desc, x, None)
    return traces
