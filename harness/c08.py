"""C08 - decoding accepts exactly the well-framed messages and never mis-frames one.

1. TLC exhaustive: MC_Framing - the step-by-step decoder machine of the specification keeps its pointer equal to the sum
   of the consumed spans, spans disjoint and contiguous, each value the content of its own span, and agrees with the
   declarative Reading, on every byte string up to a bound over a hazardous alphabet.
2. code -> spec: the mutation corpus (harness/mutants.py) plus targeted framing attacks (negative / signed / spaced /
   underscored length prefixes, lengths pointing before, at and past the end, bitmap bits added and removed, truncation
   and extension) is decoded by the real loads(); TLC judges accept/reject and the returned dictionary against the
   three-valued strict reference Reading(b) (must accept / must reject / don't-care with exact framing).
"""
from . import core, drv, isoc, isocheck, mutants, c07

OWN = ('accepted-a-must-reject', 'rejected-a-must-accept', 'reading-differs')


def owner(clause):
    return clause.startswith(OWN)


def _drive_attacks(args):
    """negative / zero-advance prefixes followed by a field that swallows them (defect class D7)."""
    seed, cfgspec, codec = args
    bc = isocheck.get_config(cfgspec)
    bits = sorted((b for b in bc if b != '1'), key=int)
    var = [b for b in bits if bc[b]['field_type'] != 'FIXED' and bc[b].get('field_processor') in (None, 'PAN', 'PAN-PREFIX')
           and (bc[b].get('field_python_type') or 'string') == 'string']
    fixed = [b for b in bits if bc[b]['field_type'] == 'FIXED' and (bc[b].get('field_python_type') or 'string') == 'string'
             and bc[b]['field_length'] >= 4]
    traces = []
    tid = 0
    for a in var:
        pl = 2 if bc[a]['field_type'] == 'LLVAR' else 3
        for b in fixed:
            if int(b) <= int(a):
                continue
            w = bc[b]['field_length']
            for pfx in ('-' + str(pl)[:1].rjust(pl - 1, '0'), '-' + '1'.rjust(pl - 1, '0'), '-' + '0' * (pl - 1), '+' + '0' * (pl - 1),
                        ' ' * (pl - 1) + '0', '0' * pl, (' -1' if pl == 3 else '-1'), (' -2' if pl == 3 else '-2'), ('\t-1' if pl == 3 else ' 0'),
                        (' +1' if pl == 3 else '+1'), ('-1 ' if pl == 3 else '-0')):
                if len(pfx) != pl:
                    continue
                for hexb in (False, True):
                    bmbits = {1, int(a), int(b)}
                    bm = bytearray(16)
                    for x in bmbits:
                        bm[(x - 1) // 8] |= 1 << (7 - (x - 1) % 8)
                    head = '1144'.encode(codec) + (bm.hex().encode('ascii') if hexb else bytes(bm))
                    # the fixed field swallows the prefix when the prefix moves the pointer by zero or backwards
                    body = pfx + ''.join('ABCDEFGHJKLMNPQRSTUVWXYZ'[i % 24] for i in range(w))
                    for cut in (0, pl, pl - 1, 1, 2):
                        data = head + body[:len(body) - cut].encode(codec)
                        e, d = isoc.do_loads(data, codec, bc, hexb)
                        traces.append({'tid': tid, 'hex': hexb, 'events': [e],
                                       '_desc': 'DE%s prefix %r followed by fixed DE%s (width %d), %d characters removed' % (a, pfx, b, w, cut),
                                       '_m': None, '_d': repr(d)[:300] if d is not None else None})
                        tid += 1
            if tid > 4000:
                break
        if tid > 4000:
            break
    # bit 1 (secondary bitmap present) cleared although elements above 64 are flagged: whatever the decision, the
    # elements above 64 must not be skipped - the same message WITHOUT their bytes must be refused
    hi = [b for b in bits if int(b) > 64 and bc[b].get('field_processor') is None
          and (bc[b].get('field_python_type') or 'string') == 'string']
    lo = [b for b in bits if int(b) <= 64 and bc[b].get('field_processor') is None
          and (bc[b].get('field_python_type') or 'string') == 'string']
    alpha = isoc.alphabet(codec)
    for i, hb in enumerate(hi[:12]):
        r = drv.rng(seed, 'bit1', hb)
        m = {'MTI': '1240', 'DE' + hb: isoc.value_for(r, bc[hb], alpha)}
        m2 = {'MTI': '1240'}
        for b in r.sample(lo, min(2, len(lo))):
            m['DE' + b] = m2['DE' + b] = isoc.value_for(r, bc[b], alpha)
        for hexb in (False, True):
            _, full = isoc.do_dumps(m, codec, bc, hexb)
            _, low = isoc.do_dumps(m2, codec, bc, hexb)
            if full is None or low is None:
                continue
            hl = 36 if hexb else 20

            def clear_bit1(x):
                if hexb:
                    return x[:4] + ('%x' % (int(chr(x[4]), 16) & 7)).encode('ascii') + x[5:]
                return x[:4] + bytes([x[4] & 0x7f]) + x[5:]
            for desc, data in (('bit 1 cleared, all element bytes present', clear_bit1(full)),
                               ('bit 1 cleared, bytes of the elements above 64 missing', clear_bit1(full[:hl]) + low[hl:]),
                               ('bytes of the elements above 64 missing', full[:hl] + low[hl:])):
                e, d = isoc.do_loads(data, codec, bc, hexb)
                traces.append({'tid': tid, 'hex': hexb, 'events': [e], '_desc': 'DE%s flagged: %s' % (hb, desc), '_m': repr(m)[:200],
                               '_d': repr(d)[:300] if d is not None else None})
                tid += 1
    return traces


def run(rep, wd, tier, seed):
    rep.assumptions += ['TLC 1.8 evaluates the TLA+ text correctly',
                        'lenient numerals are a don\'t-care for acceptance (DESIGN R2, appendix A)']
    from . import c08mc
    c08mc.model_check(rep, wd, tier)
    c07.message_level(rep, wd, tier, seed, owner, 'framing')
    jobs = [(seed, cfgspec, codec) for cfgspec in (('pkg',), ('gen', 900 + seed)) for codec in ('latin_1', 'cp500')]
    outs = isocheck._pool(_drive_attacks, jobs)
    groups = [(j[1], j[2], o) for j, o in zip(jobs, outs)]
    # the same attacks decoded by an optimised interpreter (python -O): framing may not rest on assert statements
    ojobs = [jobs[0], jobs[-1]] if tier == 'quick' else jobs
    oouts = isocheck.pool_optimised('harness.c08', '_drive_attacks', ojobs)
    for j, o in zip(ojobs, oouts):
        for t in o:
            t['_desc'] += ' [python -O]'
        groups.append((j[1], j[2], o))
    rep.extra['targeted_prefix_attacks_optimised_interpreter'] = sum(len(o) for o in oouts)
    rep.extra['targeted_prefix_attacks'] = sum(len(o) for o in outs)
    if outs and outs[0]:
        rep.sample({'attack': outs[0][0]['_desc'], 'observed': outs[0][0]['events'][0]['kind']})
    isocheck.validate(rep, wd, groups, owner, 'framing', maxbatch=2500)


def replay(rep, wd, payload):
    isocheck.replay(rep, wd, payload, owner, 'framing')
