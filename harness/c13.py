"""C13 - PIN blocks follow ISO 9564 formats 0 and 4 and return the PIN, for 4-12 digits.

1. TLC exhaustive: MC_PinBlock - every PIN length 4..12 (digits from {0,5,9} up to 6 positions, patterns beyond) x PAN
   lengths 13..19: PinOf(Iso0) = PinOf(Iso4) = pin and the block shapes.
   The cipher references Des.tla / Aes.tla are validated by FIPS known-answer ASSUMEs each time they are loaded.
2. code -> spec (Trace_Pin): recorded to_bytes / from_bytes / to_enc_bytes / from_enc_bytes calls over all PIN lengths,
   digit values at every position, PANs of 13..19 digits, supplied fills (and none supplied: freshness over consecutive
   blocks), TDES double/triple-length and AES-128/192/256 keys; clear blocks are compared with the nibble construction,
   ciphertexts with TDesEcb / AesEcb computed by TLC.
"""
import os

from . import core, drv, pinc
from .pinc import pev, call
from .c04 import write_cfg

from cardutil import pinblock


def _events_for(r, pin, pan, tid, cipher):
    ev = []
    # format 0
    kind, out = call(lambda: pinblock.Iso0PinBlock(pin, card_number=pan).to_bytes())
    e = pev('iso0', pin, pan, kind=kind, out=out if kind == 'ok' else ())
    if kind != 'ok':
        e['_observed'] = out
    ev.append(e)
    if kind == 'ok':
        block0 = out
        k2, out2 = call(lambda: pinblock.Iso0PinBlock.from_bytes(block0, card_number=pan).pin)
        ev.append(pev('iso0pin', pin, pan, data=block0, kind=k2, out=pinc.safe_digits(out2) if k2 == 'ok' else ()))
    if kind == 'ok' and tid % 3 == 2:
        # the card number is a public attribute: an object created for another card (or for none) and given this card
        # before the block is built must build this card's block
        other = pan[:-4] + '%04d' % ((int(pan[-4:]) + 4321) % 10000)

        def late(first):
            o = pinblock.Iso0PinBlock(pin, card_number=first)
            o.card_number = pan
            return o.to_bytes()
        for first in (other, None):
            k2, out2 = call(lambda: late(first))
            e = pev('iso0', pin, pan, kind=k2, out=out2 if k2 == 'ok' else ())
            e['_observed'] = {'card_number_assigned_after_construction': True, 'constructed_with': first, 'result': out2 if k2 != 'ok' else None}
            ev.append(e)
    # format 4 with a supplied fill and with none
    fill = r.choice((1, 2 ** 64 - 1, 2 ** 63, r.randrange(1, 2 ** 64)))
    kind, out = call(lambda: pinblock.Iso4PinBlock(pin, random_value=fill).to_bytes())
    e = pev('iso4', pin, data=fill.to_bytes(8, 'big'), supplied=True, kind=kind, out=out if kind == 'ok' else ())
    if kind != 'ok':
        e['_observed'] = out
    ev.append(e)
    block4 = out if kind == 'ok' else None
    if kind == 'ok' and tid % 2:
        # a copy of the object (copy.copy / copy.deepcopy / a pickle round trip: objects handed to a worker, kept in a
        # cache) is the same block: same PIN, same supplied fill, same card
        import copy
        import pickle
        how = (copy.copy, copy.deepcopy, lambda o: pickle.loads(pickle.dumps(o)))[(tid // 2) % 3]
        k2, out2 = call(lambda: how(pinblock.Iso4PinBlock(pin, random_value=fill)).to_bytes())
        e = pev('iso4', pin, data=fill.to_bytes(8, 'big'), supplied=True, kind=k2, out=out2 if k2 == 'ok' else ())
        e['_observed'] = {'block_built_by_a_copy_of_the_object': ('copy.copy', 'copy.deepcopy', 'pickle')[(tid // 2) % 3]}
        ev.append(e)
        k2, out2 = call(lambda: how(pinblock.Iso0PinBlock(pin, card_number=pan)).to_bytes())
        e = pev('iso0', pin, pan, kind=k2, out=out2 if k2 == 'ok' else ())
        e['_observed'] = {'block_built_by_a_copy_of_the_object': ('copy.copy', 'copy.deepcopy', 'pickle')[(tid // 2) % 3]}
        ev.append(e)
    if block4 is not None:
        k2, out2 = call(lambda: pinblock.Iso4PinBlock.from_bytes(block4).pin)
        ev.append(pev('iso4pin', pin, data=block4, kind=k2, out=pinc.safe_digits(out2) if k2 == 'ok' else ()))
    for _ in range(3):
        kind, out = call(lambda: pinblock.Iso4PinBlock(pin).to_bytes())
        ev.append(pev('iso4', pin, supplied=False, kind=kind, out=out if kind == 'ok' else ()))
    if cipher:
        # encrypted forms
        tkey = bytes(r.randrange(256) for _ in range(r.choice((16, 24))))
        akey = bytes(r.randrange(256) for _ in range(r.choice((16, 24, 32))))
        if 'block0' in locals():
            kind, out = call(lambda: pinc.Tdes0(pin, card_number=pan).to_enc_bytes(tkey.hex()))
            ev.append(pev('tdes', pin, pan, key=tkey, data=block0, kind=kind, out=out if kind == 'ok' else ()))
            if kind == 'ok':
                enc = out
                k2, out2 = call(lambda: pinc.Tdes0.from_enc_bytes(enc, tkey.hex(), card_number=pan).pin)
                ev.append(pev('encpin', pin, pan, key=tkey, data=enc, kind=k2, out=pinc.safe_digits(out2) if k2 == 'ok' else ()))
        if block4 is not None:
            kind, out = call(lambda: pinc.Aes4(pin, random_value=fill).to_enc_bytes(akey.hex()))
            ev.append(pev('aes', pin, key=akey, data=block4, kind=kind, out=out if kind == 'ok' else ()))
            if kind == 'ok':
                enc = out
                k2, out2 = call(lambda: pinc.Aes4.from_enc_bytes(enc, akey.hex()).pin)
                ev.append(pev('encpin', pin, key=akey, data=enc, kind=k2, out=pinc.safe_digits(out2) if k2 == 'ok' else ()))
            if tid % 4 == 0:        # TDES over the 16-byte format 4 block: two ECB blocks
                kind, out = call(lambda: pinc.Tdes4(pin, random_value=fill).to_enc_bytes(tkey.hex()))
                ev.append(pev('tdes', pin, key=tkey, data=block4, kind=kind, out=out if kind == 'ok' else ()))
    return ev


def _drive(args):
    seed, ids, ncipher = args
    out = []
    for tid in ids:
        r = drv.rng(seed, 'c13', tid)
        if tid % 7 == 3:
            drv.hazard(r)
        n = 4 + tid % 9
        pin = ''.join(r.choice('0123456789') for _ in range(n))
        if tid % 5 == 0:
            pin = r.choice('09') * n
        pan = ''.join(r.choice('0123456789') for _ in range(13 + (tid // 9) % 7))
        out.append({'tid': tid, 'events': _events_for(r, pin, pan, tid, tid % ncipher == 0),
                    '_desc': 'PIN of %d digits, PAN of %d digits' % (n, len(pan))})
    return out


def _child_fills(n):
    return [call(lambda: pinblock.Iso4PinBlock('1234').to_bytes()) for _ in range(n)]


def run(rep, wd, tier, seed):
    rep.assumptions += ['TLC 1.8 evaluates the TLA+ text correctly',
                        'Des.tla / Aes.tla are transcriptions of FIPS 46-3 / FIPS 197 checked against the published '
                        'known-answer vectors at every load; they are the independent cipher references',
                        'freshness of the random fill can only be observed (no repetition in the sample; every bit position set about half of the time, within 7 standard deviations), not decided']
    cfg = write_cfg(os.path.join(wd, 'MC_PinBlock.cfg'), 'CONSTANT MaxFull = %d\nSPECIFICATION Spec\nINVARIANT BlockInv\n'
                    'INVARIANT DecInv\nCHECK_DEADLOCK FALSE\n' % (7 if tier == 'thorough' else 5))
    res = core.run_tlc('MC_PinBlock', cfg, wd, workers=core.NCPU, timeout=3000)
    core.require_ok(res, 'MC_PinBlock')
    rep.add_tlc('MC_PinBlock exhaustive', res)
    n = 20000 if tier == 'thorough' else 360
    ncipher = 1 if tier == 'thorough' else 3
    from .isocheck import _pool
    outs = _pool(_drive, [(seed, p, ncipher) for p in core.split(list(range(n)), core.NCPU)])
    traces = [t for o in outs for t in o]
    # four threads at once, none of them the thread that imported the library
    from . import isocheck
    touts = isocheck.mark_threaded(isocheck.threaded('harness.c13', '_drive', [(seed, list(range(50000 + 12 * k, 50000 + 12 * k + 12)), 2) for k in range(8)], procs=2))
    for o in touts:
        for t in o:
            t['tid'] = len(traces)
            traces.append(t)
    # one long trace of consecutive format-4 blocks without a supplied fill: 2000 fills must not repeat
    ev = []
    import random as _random
    for i in range(6000 if tier == 'thorough' else 1100):
        if i % 2:
            _random.seed(20260927)      # the application seeds ITS generator between blocks (simulations, tests, shuffles)
        kind, out = call(lambda: pinblock.Iso4PinBlock('1234').to_bytes())
        ev.append(pev('iso4', '1234', supplied=False, kind=kind, out=out if kind == 'ok' else ()))
    traces.append({'tid': len(traces), 'events': ev, '_desc': '%d consecutive format 4 blocks without a supplied fill' % len(ev)})
    # worker processes forked from this process AFTER it has built blocks: what a pre-forking server does.  The fills of
    # the parent and of both children go into one trace - none may repeat
    import multiprocessing
    parent = [call(lambda: pinblock.Iso4PinBlock('1234').to_bytes()) for _ in range(3)]
    # (two pools of one worker each: two different children for certain, both forked from this process as it is now)
    ctx = multiprocessing.get_context('fork')
    with ctx.Pool(1) as pool_a, ctx.Pool(1) as pool_b:
        ra, rb = pool_a.apply_async(_child_fills, (60,)), pool_b.apply_async(_child_fills, (60,))
        kids = [ra.get(120), rb.get(120)]
    ev = [pev('iso4', '1234', supplied=False, kind=k, out=o if k == 'ok' else ()) for k, o in parent + kids[0] + kids[1]]
    traces.append({'tid': len(traces), 'events': ev, '_desc': 'format 4 blocks of a parent process and of two workers forked from it afterwards'})
    rep.extra['cipher_vectors'] = sum(1 for t in traces for e in t['events'] if e['op'] in ('tdes', 'aes'))
    rep.extra['calls'] = sum(len(t['events']) for t in traces)
    rep.sample({'trace': traces[0]['_desc'], 'ops': [e['op'] for e in traces[0]['events']]})
    pinc.validate(rep, wd, traces, 'pin')


def replay(rep, wd, payload):
    import sys
    core.generic_replay(sys.modules[__name__], rep, wd, payload)
