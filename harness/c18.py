"""C18 - parameter extraction returns exactly the requested table's rows and columns.

1. TLC exhaustive: MC_Param - every file of up to MaxRows logical rows (index rows, trailer, data rows of two tables,
   junk) in every order: refusal without trailer, rows = exactly the requested table's rows after the trailer in file
   order, and the expanded and compressed renderings of the same logical rows give the same column values.
2. code -> spec: synthetic real files (random index assignments, 0..50 rows per table interleaved, every configured
   table and generated layouts, position-coded row content, ASCII/EBCDIC, blocked/unblocked, expanded/compressed,
   missing trailer, unconfigured table) are read by the real IpmParamReader and by mci_ipm_param_to_csv (CSV parsed
   back with the csv module); TLC (Trace_Param: Vbs unframing ; index ; filter ; slicing) decides every result.
"""
import csv
import io
import os

from . import core, drv, isoc
from .c04 import write_cfg
from .isoc import PKG

from cardutil import mciipm
from cardutil.cli import mci_ipm_param_to_csv

ROWCODE = ''.join(chr(33 + (i * 7 + (i // 89) * 3) % 90) for i in range(400))     # position-coded, printable


def gen_layouts(r):
    """generated table layouts (3 tables) in the style of config.py"""
    out = {}
    for t in range(3):
        tid = 'IP%04dT1' % r.randrange(100, 9999)
        cols = {}
        pos = 19
        for c in range(r.randrange(1, 7)):
            pos += r.choice((0, 0, 1, 3))
            w = r.choice((1, 2, 3, 8, 19, 30))
            cols['col_%d_%d' % (t, c)] = {'start': pos, 'end': pos + w}
            pos += w
        if r.random() < 0.5:
            items = list(cols.items())
            r.shuffle(items)                 # configuration order need not be position order
            cols = dict(items)
        out[tid] = cols
    return out


def tables_json(layouts):
    return [{'id': [ord(c) for c in tid], 'cols': [{'name': n, 'start': v['start'], 'end': v['end']} for n, v in cols.items()]}
            for tid, cols in layouts.items()]


def make_file(r, layouts, expanded, enc, blocked, trailer=True, nrows=None, noconf='IP9999T1', grouped=None, subspace=1000):
    tids = list(layouts) + [noconf]          # one table present in the file without configuration
    subs = {}
    for t in tids:
        s = '%03d' % r.randrange(subspace)
        while s in subs.values():
            s = '%03d' % r.randrange(subspace)
        subs[t] = s
    rows = []
    for t in tids:          # index rows
        row = list(('%-300s' % ('2024001IDX' + t[-4:])))
        row[11:19] = 'IP0000T1'
        row[19:27] = t
        row[243:246] = subs[t]
        rows.append(''.join(row))
    twice = None
    if r.random() < 0.5:
        # one table listed under a second sub id as well (its rows use both)
        twice = r.choice(list(layouts))
        s2 = '%03d' % r.randrange(subspace)
        while s2 in subs.values():
            s2 = '%03d' % r.randrange(subspace)
        row = list(('%-300s' % ('2024002IDX' + twice[-4:])))
        row[11:19] = 'IP0000T1'
        row[19:27] = twice
        row[243:246] = s2
        rows.append(''.join(row))
        subs2 = s2
    r.shuffle(rows)
    if r.random() < 0.3:
        rows.insert(r.randrange(len(rows) + 1), 'HEADER RECORD' + ' ' * 30)
    if trailer:
        rows.append('TRAILER RECORD IP0000T1  %08d' % len(rows))
    nindex = len(rows)
    data = []
    width = max([19] + [c['end'] for cols in layouts.values() for c in cols.values()]) + r.choice((0, 5, -3, -12, -30))
    width = max(width, 22)
    for t in tids:
        for i in range(r.randrange(0, (nrows or 12) + 1) if grouped is None else grouped.get(t, 3)):
            k = r.randrange(200)
            body = ROWCODE[k:k + width - 19]
            ts10, act = '%010d' % r.randrange(10 ** 10), r.choice('AIN')
            if expanded:
                data.append(ts10 + act + t + body)
            else:
                data.append(ts10[:7] + act + (subs2 if t == twice and i % 2 else subs[t]) + body)
    if grouped is None:
        r.shuffle(data)
    if grouped is None and r.random() < 0.5:
        # trailer rows of data tables (they are not the index trailer)
        for t in r.sample(tids, 2):
            data.insert(r.randrange(len(data) + 1), 'TRAILER RECORD %s  %08d' % (t, 7))
    if data and r.random() < 0.3:
        data.insert(r.randrange(len(data)), 'X' * r.randrange(0, 15))      # short junk row
    rows += data
    if enc == 'ascii' and trailer:
        # (without the index trailer the whole file is index phase, where whole rows are text: not generated)
        # undefined bytes only in trailing filler, beyond every position that any table layout reads
        far = max([30] + [c['end'] for cols in layouts.values() for c in cols.values()]) + 2
        recs = [(x.ljust(far).encode(enc) + bytes([0xff, 0xfe, 0x80])) if i >= nindex and i % 2 else x.encode(enc)
                for i, x in enumerate(rows)]
    else:
        recs = [x.encode(enc) for x in rows]
    _, fdata = drv.vbs_write_events(recs, blocked)
    return fdata


def extract(fdata, table, layouts, enc, blocked, expanded, via_csv):
    try:
        with drv.Watchdog(10.0):
            if via_csv:
                out = io.StringIO()
                mci_ipm_param_to_csv.mci_ipm_param_to_csv(drv.new_file(fdata), out, table, config=layouts, in_encoding=enc,
                                                          no1014blocking=not blocked, expanded=expanded)
                rows = list(csv.DictReader(io.StringIO(out.getvalue())))
            else:
                src = drv.new_file(fdata)
                if not drv.THREADED and drv.pick(4, 'phdr', len(fdata), table, enc) == 1:
                    # the extract sits behind a transport header that the caller has already consumed
                    hdr = drv.HEADERS[drv.pick(3, 'phdr2', len(fdata))]
                    src = io.BytesIO(hdr + fdata)
                    src.seek(len(hdr))
                rd = mciipm.IpmParamReader(src, table, encoding=enc, param_config=layouts, blocked=blocked,
                                           expanded=expanded)
                rows = [dict(x) for x in rd]
    except BaseException as ex:  # noqa
        o = drv.exc_outcome(ex)
        return o['kind'], [], o
    return 'rows', [[{'name': k, 'text': [ord(c) for c in (v or '')]} for k, v in row.items()] for row in rows], None


def _drive(args):
    seed, lo, hi = args
    out = []
    for tid in range(lo, hi):
        r = drv.rng(seed, 'c18', tid)
        if tid % 4 == 1:
            drv.hazard(r)
        layouts = PKG['mci_parameter_tables'] if tid % 3 == 0 else gen_layouts(r)
        if tid % 3 == 1:
            # a caller-supplied layout for a table id that the packaged configuration also knows (read earlier or later
            # in this same process with the packaged layout)
            own = list(layouts.values())[0]
            layouts = dict(layouts)
            layouts[('IP0040T1', 'IP0075T1', 'IP0006T1')[tid % 3 if False else (tid // 3) % 3]] = own
        enc = ('latin_1', 'cp500', 'cp037')[tid % 3 if tid % 2 else 0]
        if tid % 8 == 6:
            enc = 'ascii'
        blocked = bool(tid & 1)
        expanded = bool(tid & 2)
        subspace = 1000
        if tid >= 2000:
            # files of the lock-step pairs: mostly compressed, and sub ids handed out from 000 upwards the way production
            # extracts number them - the same sub id means another table in the partner's file
            expanded = tid % 4 == 3
            subspace = len(layouts) + 4
        trailer = tid % 17 != 5
        # the table that is in the file but not in the caller's configuration: an unknown id, or (caller-supplied
        # configurations only) an id that the PACKAGED configuration knows - the caller's configuration is what counts
        noconf = 'IP9999T1'
        pk = [t for t in PKG['mci_parameter_tables'] if t not in layouts]
        if tid % 3 and tid % 2 and pk:
            noconf = pk[(tid // 6) % len(pk)]
        grouped = None
        if tid % 40 == 7:
            # the shape of a production extract: rows grouped by table, more than a thousand rows of one table in
            # front of and behind the few rows of another
            names = list(layouts)
            grouped = {names[0]: 1150, names[1]: 3, names[-1]: 1150 if len(names) > 2 else 3, noconf: 1100}
            trailer = True
        fdata = make_file(r, layouts, expanded, enc, blocked, trailer, nrows=50 if tid % 10 == 0 else 8, noconf=noconf, grouped=grouped, subspace=subspace)
        tables = list(layouts) + ([noconf] if tid % 7 == 3 or noconf != 'IP9999T1' else [])
        for table in tables:
            via_csv = (tid + len(table) + tables.index(table)) % 3 == 0 and table in layouts
            kind, rows, raw = extract(fdata, table, layouts, enc, blocked, expanded, via_csv)
            out.append({'tid': 0, 'op': 'extract', 'blk': blocked, 'blkout': False, 'file': list(fdata), 'table': [ord(c) for c in table],
                        'expanded': expanded, 'kind': kind, 'rows': rows, 'out': [],
                        '_enc': enc, '_layouts': layouts,
                        '_desc': 'table %s from a %s %s %s file of %d bytes%s%s' % (
                            table, enc, '1014' if blocked else 'vbs', 'expanded' if expanded else 'compressed', len(fdata),
                            '' if trailer else ' WITHOUT trailer', ' via mci_ipm_param_to_csv' if via_csv else ''),
                        '_raw': raw, '_nrows': len(rows)})
    return out


def _drive_cli(args):
    """the command as the operator runs it (a process with an exit status): a good extract, an extract without the index
    trailer, a table without configuration.  Exit status 0 counts as "rows delivered" (whatever the CSV holds), anything
    else as refused."""
    import subprocess
    import sys
    seed, k, wd = args
    r = drv.rng(seed, 'c18cli', k)
    layouts = PKG['mci_parameter_tables']
    enc, blocked, expanded = ('latin_1', 'cp500')[k % 2], bool(k & 2), bool(k & 1)
    trailer = k % 3 != 1
    fdata = make_file(r, layouts, expanded, enc, blocked, trailer, nrows=6)
    table = 'IP9999T1' if k % 3 == 2 else list(layouts)[k % len(layouts)]
    path = os.path.join(wd, 'c18cli-%d-%d.bin' % (os.getpid(), k))
    drv.spit(path, fdata)
    cmd = [sys.executable, '-B', '-c', 'import sys; from cardutil.cli.mci_ipm_param_to_csv import cli_entry; sys.exit(cli_entry())',
           path, table, '-o', path + '.csv', '--in-encoding', enc] + ([] if blocked else ['--no1014blocking']) + (['--expanded'] if expanded else [])
    env = dict(os.environ, PYTHONPATH=core.REPO)
    env.pop('CARDUTIL_CONFIG', None)
    p = subprocess.run(cmd, stdout=subprocess.PIPE, stderr=subprocess.PIPE, env=env, timeout=120)
    rows, kind, raw = [], 'liberr', {'exit_status': p.returncode, 'stderr_tail': p.stderr.decode(errors='replace')[-300:]}
    if p.returncode == 0:
        kind = 'rows'
        try:
            rows = [[{'name': kk, 'text': [ord(c) for c in (v or '')]} for kk, v in row.items()]
                    for row in csv.DictReader(io.StringIO(drv.slurp(path + '.csv', 'r')))]
        except Exception as ex:  # noqa
            raw['csv'] = repr(ex)
    for q in (path, path + '.csv'):
        if os.path.exists(q):
            os.unlink(q)
    return [{'tid': 0, 'op': 'extract', 'blk': blocked, 'blkout': False, 'file': list(fdata), 'table': [ord(c) for c in table],
             'expanded': expanded, 'kind': kind, 'rows': rows, 'out': [], '_enc': enc, '_layouts': layouts,
             '_desc': 'mci_ipm_param_to_csv as a process: table %s from a %s %s %s file%s -> exit status %d' % (
                 table, enc, '1014' if blocked else 'vbs', 'expanded' if expanded else 'compressed', '' if trailer else ' WITHOUT trailer', p.returncode),
             '_raw': raw, '_nrows': len(rows)}]


def validate(rep, wd, traces, prefix):
    """one TLC batch per (encoding, layouts)"""
    from concurrent.futures import ThreadPoolExecutor
    cfgp = write_cfg(os.path.join(wd, 'Trace_Param.cfg'),
                     'CONSTANTS P = 1012 T = 2 PAD = 64 MaxLen = %d\nSPECIFICATION TSpec\nPOSTCONDITION AllAccepted\n'
                     'CHECK_DEADLOCK FALSE\n' % drv.max_vbs_len())
    groups = {}
    for t in traces:
        key = (t['_enc'], t.get('_enc2', t['_enc']), repr(sorted(t['_layouts'])))
        g = groups.setdefault(key, {'consts': {'dec': isoc.codec_table(t['_enc']), 'dec2': isoc.codec_table(t.get('_enc2', t['_enc'])),
                                              'tables': tables_json(t['_layouts'])}, 'traces': []})
        t['tid'] = len(g['traces'])
        g['traces'].append(t)
    items = list(groups.values())

    def one(i):
        return core.tlc_batch('Trace_Param', cfgp, wd, items[i], 'param-%d' % i)
    with ThreadPoolExecutor(core.NCPU) as ex:
        outs = list(ex.map(one, range(len(items))))
    for g, (acc, rejects, res) in zip(items, outs):
        rep.states += res.distinct
        rep.transitions += res.generated
        rep.traces += len(g['traces'])
        by = {t['tid']: t for t in g['traces']}
        for rj in rejects:
            t = by[rj[1]]
            rep.violation('%s:%s' % (prefix, rj[3]), {'case': t['_desc'], 'clause': rj[3], 'observed_kind': t['kind'],
                                                      'observed_rows': t.get('_nrows'), 'observed': t.get('_raw'),
                                                      'first_row': t['rows'][:1] and {c['name']: ''.join(map(chr, c['text'])) for c in t['rows'][0]}})
    rep.tlc_runs.append({'run': 'Trace_Param %d batches' % len(items)})


def model_check(rep, wd, tier):
    cfg = write_cfg(os.path.join(wd, 'MC_Param.cfg'), 'CONSTANTS MaxRows = %d\nSPECIFICATION Spec\nINVARIANT RefusalInv\n'
                    'INVARIANT RowsInv\nINVARIANT FormsAgreeInv\nCHECK_DEADLOCK FALSE\n' % (6 if tier == 'thorough' else 5))
    res = core.run_tlc('MC_Param', cfg, wd, workers=core.NCPU, timeout=3000)
    core.require_ok(res, 'MC_Param')
    rep.add_tlc('MC_Param exhaustive', res)


def run(rep, wd, tier, seed):
    rep.assumptions += ['TLC 1.8 evaluates the TLA+ text correctly', 'the csv module parses what csv.DictWriter wrote',
                        'table layouts of the packaged configuration are read from config.py at run time']
    model_check(rep, wd, tier)
    n = 400 if tier == 'thorough' else 48
    parts = core.split(list(range(n)), core.NCPU)
    from .isocheck import _pool
    outs = _pool(_drive, [(seed, p[0], p[-1] + 1) for p in parts])
    from . import isocheck
    outs += isocheck.mark_threaded(isocheck.threaded('harness.c18', '_drive', [(seed, 1000 + 3 * k, 1000 + 3 * k + 3) for k in range(8)], procs=2))
    # two parameter readers alive at the same time, consumed alternately
    outs += isocheck.lockstep('harness.c18', '_drive', [(seed, 2000 + 3 * k, 2000 + 3 * k + 3) for k in range(8)], procs=4)
    outs += _pool(_drive_cli, [(seed, k, wd) for k in range(12 if tier == 'thorough' else 6)])
    traces = [t for o in outs for t in o]
    kinds = {}
    for t in traces:
        kinds[t['kind']] = kinds.get(t['kind'], 0) + 1
    rep.extra['extractions'] = len(traces)
    rep.extra['observed_kinds'] = kinds
    rep.extra['rows_returned'] = sum(t['_nrows'] for t in traces)
    rep.sample({'trace': traces[0]['_desc'], 'rows': traces[0]['_nrows']})
    rep.sample({'trace': traces[-1]['_desc'], 'rows': traces[-1]['_nrows']})
    validate(rep, wd, traces, 'param')


def replay(rep, wd, payload):
    import sys
    core.generic_replay(sys.modules[__name__], rep, wd, payload)
