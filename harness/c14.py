"""C14 - PVV, key check value and key-part combination match the published algorithms.

1. TLC exhaustive: MC_PinBlock DecInv (decimalisation always four decimal digits, order kept, second scan supplies 0..4
   digits) and MC_KeyMgmt (Combine is independent of component order and a component given twice cancels) over a small
   universe.  Des.tla is validated by FIPS known-answer ASSUMEs at every load.
2. code -> spec (Trace_Pin): calculate_pvv and the to_pvv mix-in over PINs of 4..12 digits, PANs of 12..19 digits, key
   index 0..9, DES/3DES keys of 8/16/24 bytes - including a corpus of keys found by search for which the second
   decimalisation scan supplies 1, 2, 3 and 4 digits; calculate_kcv (lengths 1..16), get_zone_master_key /
   get_enc_zone_master_key over component lists of 1..4 parts with permutations and duplicates.  TLC computes Pvv / Kcv /
   Combine / EncZmk with the TLA+ DES.
"""
import itertools
import os

from . import core, drv, pinc
from .pinc import pev, call, nib
from .c04 import write_cfg

from cardutil import pinblock, key as keymod


def hexdigits_needed(ct_hex):
    return max(0, 4 - sum(c.isdigit() for c in ct_hex))


def search_second_scan(seed, want, limit):
    """(pin, pan, idx, key) whose ciphertext needs `want` substituted digits - found by search with the real cipher
    (input generation only; TLC re-derives the PVV)."""
    from cryptography.hazmat.primitives.ciphers import Cipher, modes
    from cryptography.hazmat.decrepit.ciphers import algorithms as d
    r = drv.rng(seed, 'pvvsearch', want)
    pin, pan, idx = '1234', '4000123456789010', 1
    tsp = bytes.fromhex(pan[-12:-1] + str(idx) + pin[:4])
    for _ in range(limit):
        k = bytes(r.randrange(256) for _ in range(16))
        e = Cipher(d.TripleDES(k), modes.ECB()).encryptor()
        ct = (e.update(tsp) + e.finalize()).hex()
        if hexdigits_needed(ct) == want:
            return pin, pan, idx, k
    return None


# committed corpus: keys (hex) for which the second scan supplies 3 and 4 digits (probability 2e-5 / 1.5e-7 per random key);
# found once with search_second_scan and re-validated by TLC on every run
HARD_KEYS = {3: 'c7aec43b2d9d00679f41e98dce6c2ca3', 4: 'bbc7149f8dfd1e8b6143fda5742e9be9'}
# keys for which the substituted letters include an 'a' (which maps to the digit 0), one per number of substituted digits
# keys whose ciphertext has a decimal digit among the first hex characters although the second scan is needed (1, 2, 3 digits)
HARD_KEYS_D = ['218b625f02ae7c99fb00fe44279e3071', '0ad6bb076d7a0b237673a73649710335', '6eff2aa14c209fa10096c24c11e9ab25']
HARD_KEYS_A = ['cb0ac2249e718b9a4509fca984e80521', '26a1ced8ca857955107194d1d40d5426', 'a9527c7fe32612b4f200a420bbf3bcd8',
               '008a408bdfb201858a809703a6c8f641']


def _drive(args):
    seed, ids = args
    out = []
    for tid in ids:
        r = drv.rng(seed, 'c14', tid)
        if tid % 5 == 2:
            drv.hazard(r)
        ev = []
        n = 4 + tid % 9
        pin = ''.join(r.choice('0123456789') for _ in range(n))
        pan = ''.join(r.choice('0123456789') for _ in range(12 + tid % 8))
        idx = tid % 10
        key = bytes(r.randrange(256) for _ in range((8, 16, 24)[tid % 3]))
        if tid % 7 == 4:
            # keys with structure: triple length with K1 = K2 (DES under K3), K1 = K3, K2 = K3; double length with equal halves
            k1, k3 = bytes(r.randrange(256) for _ in range(8)), bytes(r.randrange(256) for _ in range(8))
            key = (k1 + k1 + k3, k1 + k3 + k1, k3 + k1 + k1, k1 + k1)[(tid // 7) % 4]
        kind, out_ = call(lambda: pinblock.calculate_pvv(pin, key.hex(), idx, pan))
        e = pev('pvv', pin, pan, idx=idx, key=key, kind=kind, out=pinc.safe_digits(out_) if kind == 'ok' else ())
        if kind != 'ok':
            e['_observed'] = out_
        ev.append(e)
        if tid % 3 == 0:
            kind, out_ = call(lambda: pinc.Tdes0(pin, card_number=pan).to_pvv(key.hex(), key_index=idx))
            ev.append(pev('pvv', pin, pan, idx=idx, key=key, kind=kind, out=pinc.safe_digits(out_) if kind == 'ok' else ()))
            kind, out_ = call(lambda: pinc.Aes4(pin).to_pvv(key.hex(), key_index=idx, card_number=pan))
            ev.append(pev('pvv', pin, pan, idx=idx, key=key, kind=kind, out=pinc.safe_digits(out_) if kind == 'ok' else ()))
            kind, out_ = call(lambda: pinc.Tdes0Variant(pin, card_number=pan).to_pvv(key.hex(), key_index=idx))
            ev.append(pev('pvv', pin, pan, idx=idx, key=key, kind=kind, out=pinc.safe_digits(out_) if kind == 'ok' else ()))
        if tid % 3 == 1 and len(pan) >= 13:
            # the PVV of objects REBUILT from block bytes (clear and encrypted): the object carries the same PIN and card
            tk = bytes(r.randrange(256) for _ in range(16)).hex()
            for what, make in (('from_bytes', lambda: pinc.Tdes0.from_bytes(pinc.Tdes0(pin, card_number=pan).to_bytes(), card_number=pan)),
                               ('from_enc_bytes', lambda: pinc.Tdes0.from_enc_bytes(pinc.Tdes0(pin, card_number=pan).to_enc_bytes(tk), tk, card_number=pan)),
                               ('from_bytes4', lambda: pinc.Aes4.from_bytes(pinc.Aes4(pin).to_bytes()))):
                kind, out_ = call(lambda: (make().to_pvv(key.hex(), key_index=idx) if what != 'from_bytes4'
                                           else make().to_pvv(key.hex(), key_index=idx, card_number=pan)))
                e = pev('pvv', pin, pan, idx=idx, key=key, kind=kind, out=pinc.safe_digits(out_) if kind == 'ok' else ())
                e['_observed'] = {'object': what, 'result': out_ if kind != 'ok' else None}
                ev.append(e)
        if tid % 3 == 2:
            # one card-less (format 4) object asked for the PVV of one card and then of another: each answer is that card's
            pan2 = pan[:-5] + '%05d' % ((int(pan[-5:]) + 13579) % 100000)
            o4 = pinc.Aes4(pin)
            for p_ in (pan, pan2, pan):
                kind, out_ = call(lambda: o4.to_pvv(key.hex(), key_index=idx, card_number=p_))
                ev.append(pev('pvv', pin, p_, idx=idx, key=key, kind=kind, out=pinc.safe_digits(out_) if kind == 'ok' else ()))
        if tid % 4 == 3:
            # the hexadecimal key text arriving as bytes (a key file opened in binary mode) instead of str
            for kb in (key.hex().encode('ascii'), bytearray(key.hex().encode('ascii'))):
                kind, out_ = call(lambda: pinblock.calculate_pvv(pin, kb, idx, pan))
                e = pev('pvv', pin, pan, idx=idx, key=key, kind=kind, out=pinc.safe_digits(out_) if kind == 'ok' else ())
                e['_observed'] = {'key_given_as': type(kb).__name__, 'result': out_ if kind != 'ok' else None}
                ev.append(e)
        # key check values and key components
        k16 = bytes(r.randrange(256) for _ in range((16, 24)[tid % 2]))
        if tid % 5 == 1:
            # a key whose BYTES happen to be hexadecimal-digit characters (the classic test key '0123456789ABCDEF' as text)
            k16 = (b'0123456789ABCDEF', b'0123456789abcdef01234567', b'FEDCBA9876543210', b'1111222233334444AAAABBBB')[(tid // 5) % 4]
        ln = r.choice((6, 6, 4, 1, 16, r.randrange(1, 17)))
        kind, out_ = call(lambda: keymod.calculate_kcv(k16, ln))
        ev.append(pev('kcv', key=k16, n=ln, kind=kind, out=nib(out_) if kind == 'ok' else ()))
        parts = [bytes(r.randrange(256) for _ in range(16)) for _ in range(r.randrange(1, 5))]
        variants = [parts, list(reversed(parts)), parts + [parts[0], parts[0]], parts + [parts[-1]]]
        if len(parts) > 2:
            variants.append(parts[1:] + parts[:1])
        mk = bytes(r.randrange(256) for _ in range((16, 24)[(tid // 2) % 2]))
        if tid % 4 == 1:
            # refused input first: whatever happens to it must not leak into the calls that follow
            call(lambda: keymod.get_zone_master_key(parts[0].hex(), 'not hexadecimal at all' + 'z' * 10))
            call(lambda: pinblock.calculate_pvv('12x4', key.hex(), idx, pan))
        for vi, ps in enumerate(variants):
            # components as they are written on key forms: lower case, UPPER CASE, mixed
            spell = (lambda h: h, lambda h: h.upper(), lambda h: ''.join(c.upper() if i % 3 else c for i, c in enumerate(h)))[(tid + vi) % 3]
            kind, out_ = call(lambda: keymod.get_zone_master_key(*[spell(p.hex()) for p in ps]))
            ev.append(pev('zmk', parts=ps, kind=kind, out=nib(out_[0]) if kind == 'ok' else ()))
            if kind == 'ok':
                clear = bytes.fromhex(out_[0])
                ev.append(pev('kcv', key=clear, n=len(out_[1]), kind='ok', out=nib(out_[1])))
        kind, out_ = call(lambda: keymod.get_enc_zone_master_key(mk.hex().upper() if tid % 2 else mk.hex(), *[p.hex().upper() if tid % 4 == 1 else p.hex() for p in parts]))
        ev.append(pev('enczmk', key=mk, parts=parts, kind=kind, out=nib(out_[0]) if kind == 'ok' else ()))
        out.append({'tid': tid, 'events': ev, '_desc': 'PVV for a PIN of %d digits, PAN of %d digits, %d-byte key; %d key components'
                    % (n, len(pan), len(key), len(parts))})
    return out


def run(rep, wd, tier, seed):
    rep.assumptions += ['TLC 1.8 evaluates the TLA+ text correctly',
                        'Des.tla is a transcription of FIPS 46-3 checked against published known-answer vectors at every load',
                        'hex strings returned by the library are projected to nibble values']
    cfg = write_cfg(os.path.join(wd, 'MC_PinBlock.cfg'), 'CONSTANT MaxFull = 4\nSPECIFICATION Spec\nINVARIANT DecInv\nCHECK_DEADLOCK FALSE\n')
    res = core.run_tlc('MC_PinBlock', cfg, wd, workers=core.NCPU, timeout=3000)
    core.require_ok(res, 'MC_PinBlock')
    rep.add_tlc('MC_PinBlock DecInv exhaustive', res)
    cfg = write_cfg(os.path.join(wd, 'MC_KeyMgmt.cfg'), 'CONSTANT MaxParts = %d\nSPECIFICATION Spec\nINVARIANT OrderInv\n'
                    'INVARIANT CancelInv\nCHECK_DEADLOCK FALSE\n' % (4 if tier == 'thorough' else 3))
    res = core.run_tlc('MC_KeyMgmt', cfg, wd, workers=core.NCPU, timeout=3000)
    core.require_ok(res, 'MC_KeyMgmt')
    rep.add_tlc('MC_KeyMgmt exhaustive', res)
    n = 8000 if tier == 'thorough' else 130
    from .isocheck import _pool
    outs = _pool(_drive, [(seed, p) for p in core.split(list(range(n)), core.NCPU)])
    traces = [t for o in outs for t in o]
    from . import isocheck
    touts = isocheck.mark_threaded(isocheck.threaded('harness.c14', '_drive', [(seed, list(range(50000 + 8 * k, 50000 + 8 * k + 8))) for k in range(8)], procs=2))
    for o in touts:
        for t in o:
            t['tid'] = len(traces)
            traces.append(t)
    # second decimalisation scan: 0, 1, 2 digits by search at run time (cheap), 3 and 4 from the committed corpus
    ev = []
    found = {}
    for want, limit in ((1, 20000), (2, 400000)):
        hit = search_second_scan(seed, want, limit if tier == 'thorough' or want == 1 else 60000)
        if hit:
            found[want] = hit
    for want, khex in HARD_KEYS.items():
        found[want] = ('1234', '4000123456789010', 1, bytes.fromhex(khex))
    extra = [('1234', '4000123456789010', 1, bytes.fromhex(kh)) for kh in HARD_KEYS_A + HARD_KEYS_D]
    for (pin, pan, idx, k) in extra:
        kind, out_ = call(lambda: pinblock.calculate_pvv(pin, k.hex(), idx, pan))
        ev.append(pev('pvv', pin, pan, idx=idx, key=k, kind=kind, out=pinc.safe_digits(out_) if kind == 'ok' else ()))
    for want, (pin, pan, idx, k) in sorted(found.items()):
        kind, out_ = call(lambda: pinblock.calculate_pvv(pin, k.hex(), idx, pan))
        e = pev('pvv', pin, pan, idx=idx, key=k, kind=kind, out=pinc.safe_digits(out_) if kind == 'ok' else ())
        e['_want'] = want
        ev.append(e)
    traces.append({'tid': len(traces), 'events': ev, '_desc': 'keys whose ciphertext needs %s substituted digits' % sorted(found)})
    rep.extra['second_scan_digits_covered'] = [0] + sorted(found)
    rep.extra['calls'] = sum(len(t['events']) for t in traces)
    rep.sample({'trace': traces[0]['_desc'], 'ops': [e['op'] for e in traces[0]['events']]})
    pinc.validate(rep, wd, traces, 'pvv')


def replay(rep, wd, payload):
    import sys
    core.generic_replay(sys.modules[__name__], rep, wd, payload)
