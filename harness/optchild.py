"""Child process started with `python -O` (or other interpreter flags, e.g. -bb): runs one driver function of the harness over the jobs read from stdin and
writes the recorded traces to stdout (pickle).  Optimised mode removes assert statements from the library; what is
recorded here is judged by the same specification as everything else."""
import importlib
import pickle
import sys


def main():
    modname, fnname = sys.argv[1], sys.argv[2]
    jobs = pickle.load(sys.stdin.buffer)
    flags = sys.argv[3:]
    if '-O' in flags or not flags:
        assert False, 'this child must run with -O'      # removed under -O; stops a mis-started child
    fn = getattr(importlib.import_module(modname), fnname)
    from harness import isocheck
    out = isocheck._pool(fn, jobs)
    sys.stdout.buffer.write(pickle.dumps({'optimised': not __debug__, 'bytes_warning': sys.flags.bytes_warning, 'out': out}))


if __name__ == '__main__':
    main()
