r"""C19 - encoding/format conversion tools preserve every record and are reversible.

Specification of a conversion A -> B (spec/Trace_Ipm.tla, spec/Trace_Param.tla):
    IPM tools   : out \in WriterFiles(fmt_out, [Layout_B(Reading_A'(r)) : r \in Records_fmt_in(in)])
                  (A' = the tool's reader configuration: PDS expansion disabled for mci_ipm_encode, default for mideu)
    param tools : out \in WriterFiles(fmt_out, [Encode_B(Decode_A(r)) : r \in Records_fmt_in(in)])
For each writer-produced input file the real tool is run; TLC decides (batch under codec A) that the records read
from the input are Reading_A', (batch under codec B) that the tool's output file is the writer file of Layout_B of
those dictionaries and that reading it back agrees with Reading_B; the harness then compares the two observed
dictionary lists (count, order, every key and value, ICC bytes) and the bytes of the return conversion with the
original file.  All ordered pairs of {latin_1, cp500, cp037} x {vbs,1014}^2 for mci_ipm_encode / mci_ipm_param_encode,
the fixed pairs of mideu convert / paramconv; function entry points and cli_run on real files.
"""
import contextlib
import io
import os

from . import core, drv, isoc, isocheck, ipmc, c18
from .isoc import PKG

from cardutil import mciipm
from cardutil.cli import mci_ipm_encode, mci_ipm_param_encode, mideu, paramconv

ENCS = ('latin_1', 'cp500', 'cp037')


def owner(clause):
    return True


def quiet(fn, *a, **k):
    with contextlib.redirect_stdout(io.StringIO()):
        return fn(*a, **k)


def input_object(data, wd, *key):
    """the input handed to a converter function: a plain buffer, a stream without seek / tell / descriptor (a pipe), or a
    gzip file object (whose descriptor is the compressed file).  Returns (file object, cleanup)."""
    k = drv.pick(5, 'convin', len(data), key) if not drv.THREADED else 0
    if k == 2:
        return drv.new_file(data, kind='pipe'), (lambda: None)
    if k == 4:
        import gzip
        path = os.path.join(wd, 'convin-%d-%d.gz' % (os.getpid(), drv.pick(10 ** 6, 'gz', len(data), key)))
        with gzip.open(path, 'wb') as zf:
            zf.write(data)
        fh = gzip.open(path, 'rb')
        return fh, (lambda: (fh.close(), os.unlink(path)))
    return drv.new_file(data), (lambda: None)


def run_ipm_tool(tool, data, a, b, fi, fo, wd, tag):
    """returns output bytes (or raises)"""
    if tool == 'mci_ipm_encode':
        out = drv.new_file()
        src, done = input_object(data, wd, a, b, fi, fo, tag)
        try:
            mci_ipm_encode.mci_ipm_encode(src, out_file=out, in_encoding=a, out_encoding=b, in_format=fi, out_format=fo)
        finally:
            done()
        return out.getvalue()
    path = os.path.join(wd, 'conv-%d-%s.ipm' % (os.getpid(), tag))
    drv.spit(path, data)
    if len(data) % 2 == 0:
        # yesterday's (longer) output is still there under the same name: the new output replaces it
        for suffix in ('.o', '.out'):
            drv.spit(path + suffix, b'\x5a' * (len(data) + 9126))
    try:
        if tool == 'mci_ipm_encode.cli':
            if fi == fo == 'vbs' and len(data) % 2:
                # the --no1014blocking switch of the command overrides both format options
                quiet(mci_ipm_encode.cli_run, in_filename=path, out_filename=path + '.o', in_encoding=a, out_encoding=b,
                      in_format='1014', out_format='1014', no1014blocking=True)
            else:
                quiet(mci_ipm_encode.cli_run, in_filename=path, out_filename=path + '.o', in_encoding=a, out_encoding=b,
                      in_format=fi, out_format=fo)
            return drv.slurp(path + '.o')
        # mideu convert: fixed pairs, same blocking in and out, writes <input>.out
        kw = {}
        if len(data) % 3 == 0:
            # a site configuration file (documented way to switch PAN masking on for extraction) must not make the
            # conversion lossy
            import copy
            import json
            site = copy.deepcopy(dict(PKG))
            site['bit_config']['2']['field_processor'] = 'PAN'
            json.dump(site, open(path + '.json', 'w'))
            kw['config_file'] = path + '.json'
        try:
            rc = quiet(mideu.cli_run, func=mideu.convert, input=path, sourceformat='ebcdic' if a == 'cp500' else 'ascii',
                       no1014blocking=(fi == 'vbs'), **kw)
        finally:
            if os.path.exists(path + '.json'):
                os.unlink(path + '.json')
        if rc == -1:
            raise RuntimeError('mideu convert reported an error')
        return drv.slurp(path + '.out')
    finally:
        for p in (path, path + '.o', path + '.out'):
            if os.path.exists(p):
                os.unlink(p)


def reader_config(tool):
    return mci_ipm_encode.get_config() if tool.startswith('mci_ipm_encode') else PKG['bit_config']


def read_dicts(data, enc, bc, blocked):
    evs = ipmc.read_all_events(1, data, enc, bc, blocked)
    raw = []
    for e in evs:
        e.pop('_exc', None)
    return evs


COUNTS = (128, 256, 100, 64, 127, 129)
PCOUNTS = (128, 256, 1000, 512, 100, 1024, 384, 10)


def _drive_ipm(args):
    seed, wd, cases = args
    out = []
    bc = PKG['bit_config']
    for (cid, tool, a, b, fi, fo) in cases:
        r = drv.rng(seed, 'c19', cid)
        n = r.choice((1, 2, 3, 6))
        if cid >= 5000:
            n = COUNTS[(cid - 5000) % len(COUNTS)]         # record counts at round numbers (batch sizes of a converter)
        msgs = []
        for j in range(n):
            m = isoc.gen_message(r, bc, isoc.SAFE, maxbits=r.choice((3, 8, 16)) if n < 50 else 3)
            if tool == 'mideu.convert':
                # mideu re-packs PDS canonically: only library-packed PDS (PDSxxxx keys) is in the statement's
                # "written by the library"; hand-made carrier strings are a don't-care for this tool
                for c in ('DE48', 'DE62', 'DE123', 'DE124', 'DE125'):
                    m.pop(c, None)
            if j == 0:
                m['DE55'] = isoc.ricc(r) + bytes([0x82, 3, 0x80, 0xfe, 0xff])      # ICC bytes >= 0x80
                if cid % 4 == 1:
                    m['PDS9999'] = ''                        # an empty value in the last sub-element
                if cid % 4 == 2:
                    m['DE55'] = b''.join(b'\x9f\x10' + bytes([30]) + bytes(range(i, i + 30)) for i in range(0, 200, 10))   # 660 bytes
                if cid % 3 == 0:
                    m['DE55'] = bytes([0x9f, 0x26, 2, 1, 0x80]) + b'\x00\x00\x00' + bytes([0x82, 1, 0xff])    # low-values filler
                m.pop('DE48', None)
                if not any(k.startswith('PDS') for k in m):
                    m['PDS0158'] = 'ABC 123'
            msgs.append(m)
        if cid % 4 == 1:
            # a first record that ends exactly on a 1012-byte payload boundary (4 + L = 1012 k)
            k = (1, 2, 3)[(cid // 4) % 3]
            m0 = {'MTI': '1240', 'DE3': '123456'}
            want = 1012 * k - 4
            for de in ('DE72', 'DE127', 'DE111'):
                left = want - len(isoc.iso8583.dumps(dict(m0), encoding=a))
                if left >= 4:
                    m0[de] = ('%s boundary ' % de * 100)[:min(999, left - 3)]
            left = want - len(isoc.iso8583.dumps(dict(m0), encoding=a))
            if left >= 3:
                m0['DE2'] = '5' * (left - 2)
            msgs.insert(0, m0)
            n += 1
        if cid % 5 == 3 and fi == 'vbs':
            # an unblocked file whose bytes 1012-1013 and 2026-2027 are blanks of its code page (x40 x40 in EBCDIC):
            # blank-padded text crossing the places where a blocked file would carry its trailers
            msgs = [{'MTI': '1240', 'DE2': '5%015d' % i, 'PDS0165': 'M' + ' ' * 646 + 'x'} for i in range(4)]
            n = 4
        src = ipmc.write_file(msgs, a, bc, fi == '1014')
        rc = reader_config(tool)
        res = {'cid': cid, 'tool': tool, 'a': a, 'b': b, 'fi': fi, 'fo': fo, 'viol': [],
               'desc': '%s %s(%s) -> %s(%s), %d records' % (tool, a, fi, b, fo, n)}
        if cid % 5 == 2:
            # an earlier 1014 writer in this process that was abandoned without being finalised
            w0 = mciipm.IpmWriter(io.BytesIO(), encoding=a, blocked=True)
            w0.write({'MTI': '1240', 'DE3': '999999', 'DE72': 'abandoned ' * 40})
            del w0
        try:
            with drv.Watchdog(20.0):
                dst = run_ipm_tool(tool, src, a, b, fi, fo, wd, '%d' % cid)
        except BaseException as ex:  # noqa
            res['viol'].append(('tool-raised', {'observed': drv.exc_outcome(ex)}))
            out.append(res)
            continue
        # batch A: the input read with the tool's reader configuration
        evA = [ipmc.iev(1, 'given', b=src)] + read_dicts(src, a, rc, fi == '1014')
        res['traceA'] = {'tid': 0, 'loc': False, 'strict': True, 'cols': [], 'insts': [{'blk': fi == '1014'}], 'events': evA,
                         '_desc': res['desc'] + ' [input read under A]'}
        xs = [e for e in evA if e['op'] == 'next' and e['out'] == 'rec']
        # batch B: the output must be the writer file of Layout_B of those dictionaries; and its reading
        evB = [dict(ipmc.iev(1, 'write'), m=e['d']) for e in xs] + [ipmc.iev(1, 'fin'), ipmc.iev(1, 'file', b=dst)]
        evB += read_dicts(dst, b, bc, fo == '1014')
        res['traceB'] = {'tid': 0, 'loc': False, 'strict': True, 'cols': [], 'insts': [{'blk': fo == '1014'}], 'events': evB,
                         '_desc': res['desc'] + ' [output under B]'}
        # observed equality of the two readings under the library's standard configuration: the records of the
        # output decoded under B equal the records of the input decoded under A (ICC bytes identical)
        xs0 = [e for e in read_dicts(src, a, bc, fi == '1014') if e['op'] == 'next' and e['out'] == 'rec']
        ys = [e for e in read_dicts(dst, b, bc, fo == '1014') if e['op'] == 'next' and e['out'] == 'rec']
        if len(xs) != n or len(ys) != len(xs) or len(xs0) != n:
            res['viol'].append(('record-count-changed', {'input_records': n, 'read_from_input': len(xs), 'read_from_output': len(ys)}))
        else:
            for i, (x, y) in enumerate(zip(xs0, ys)):
                dx = {repr(e['k']): e['v'] for e in x['d']}
                dy = {repr(e['k']): e['v'] for e in y['d']}
                if dx != dy:
                    diff = sorted(k for k in set(dx) | set(dy) if dx.get(k) != dy.get(k))
                    res['viol'].append(('record-changed', {'record': i + 1, 'keys_that_differ': diff[:6]}))
                    break
        # return conversion reproduces the original file
        try:
            with drv.Watchdog(20.0):
                back = run_ipm_tool(tool, dst, b, a, fo, fi, wd, '%db' % cid)
            if back != src:
                res['viol'].append(('return-conversion-differs', {'original_len': len(src), 'returned_len': len(back),
                                                                  'first_diff': next((i for i, (p, q) in enumerate(zip(src, back)) if p != q), min(len(src), len(back)))}))
        except BaseException as ex:  # noqa
            res['viol'].append(('return-conversion-raised', {'observed': drv.exc_outcome(ex)}))
        out.append(res)
    return out


def _drive_param(args):
    seed, wd, cases = args
    out = []
    for (cid, tool, a, b, fi, fo) in cases:
        r = drv.rng(seed, 'c19p', cid)
        recs = []
        for j in range(r.choice((1, 3, 8, 30)) if cid < 5000 else PCOUNTS[(cid - 5000) % len(PCOUNTS)]):
            n = r.choice((1, 20, 250, 1008, 1012, r.randrange(1, 600))) if cid < 5000 else r.choice((1, 20, 57))
            if cid % 3 == 1 and j % 3 == 0:
                # fixed-width text padded with blanks / low values: runs long enough to fill whole 1014 blocks
                n = r.choice((2023, 2100, 3040, 1012, 2024))
                recs.append(bytes([r.choice((0x40, 0x20, 0x00, 0x40))]) * n)
                continue
            recs.append(bytes(r.randrange(256) for _ in range(n)) if j % 2 else drv.CODE[j:j + n])
        _, src = drv.vbs_write_events(recs, fi == '1014')
        t = {'tid': 0, 'op': 'convert', 'blk': fi == '1014', 'blkout': fo == '1014', 'file': list(src), 'table': [], 'expanded': False,
             'kind': 'ok', 'rows': [], 'out': [], '_enc': a, '_enc2': b, '_layouts': {}, '_nrows': 0, '_raw': None,
             '_desc': '%s %s(%s) -> %s(%s), %d arbitrary-byte records' % (tool, a, fi, b, fo, len(recs)), '_viol': []}

        def conv(data, x, y, f1, f2, tag):
            if tool == 'mci_ipm_param_encode':
                o = drv.new_file()
                src, done = input_object(data, wd, x, y, f1, f2, tag)
                try:
                    mci_ipm_param_encode.mci_ipm_param_encode(src, o, in_encoding=x, out_encoding=y, in_format=f1, out_format=f2)
                finally:
                    done()
                return o.getvalue()
            path = os.path.join(wd, 'pconv-%d-%s.bin' % (os.getpid(), tag))
            drv.spit(path, data)
            if len(data) % 2 == 0:
                drv.spit(path + '.o', b'\x5a' * (len(data) + 5000))          # a longer file of that name exists already
            try:
                if tool == 'mci_ipm_param_encode.cli':
                    quiet(mci_ipm_param_encode.cli_run, in_filename=path, out_filename=path + '.o', in_encoding=x, out_encoding=y,
                          in_format=f1, out_format=f2)
                else:
                    rc = quiet(paramconv.cli_run, input=path, output=path + '.o', sourceformat='ebcdic' if x == 'cp500' else 'ascii',
                               no1014blocking=(f1 == 'vbs'))
                    if rc == -1:
                        raise RuntimeError('paramconv reported an error')
                return drv.slurp(path + '.o')
            finally:
                for p in (path, path + '.o'):
                    if os.path.exists(p):
                        os.unlink(p)
        try:
            with drv.Watchdog(20.0):
                dst = conv(src, a, b, fi, fo, '%d' % cid)
            t['out'] = list(dst)
            back = conv(dst, b, a, fo, fi, '%db' % cid)
            if back != src:
                t['_viol'].append(('return-conversion-differs', {'original_len': len(src), 'returned_len': len(back)}))
        except BaseException as ex:  # noqa
            t['kind'] = 'exc'
            t['_raw'] = drv.exc_outcome(ex)
        out.append(t)
    return out


def run(rep, wd, tier, seed):
    rep.assumptions += ['TLC 1.8 evaluates the TLA+ text correctly', 'input files are produced by the real IpmWriter / VbsWriter',
                        'python codec tables for latin_1, cp500, cp037']
    cases, pcases = [], []
    cid = 0
    fmts = ('vbs', '1014')
    for a in ENCS:
        for b in ENCS:
            for fi in fmts:
                for fo in fmts:
                    reps = 6 if tier == 'thorough' else 1
                    for _ in range(reps):
                        cases.append((cid, 'mci_ipm_encode' if cid % 3 else 'mci_ipm_encode.cli', a, b, fi, fo))
                        pcases.append((cid, 'mci_ipm_param_encode' if cid % 3 else 'mci_ipm_param_encode.cli', a, b, fi, fo))
                        cid += 1
    for (a, b) in (('cp500', 'latin_1'), ('latin_1', 'cp500')):
        for f in fmts:
            for _ in range(6 if tier == 'thorough' else 2):
                cases.append((cid, 'mideu.convert', a, b, f, f))
                pcases.append((cid, 'paramconv', a, b, f, f))
                cid += 1
    # files whose record count is a round number (what a converter that works in batches cares about)
    for i in range(len(COUNTS) if tier == 'quick' else 4 * len(COUNTS)):
        a, b = ENCS[i % len(ENCS)], ENCS[(i // 2 + 1) % len(ENCS)]
        cases.append((5000 + i, 'mci_ipm_encode', a, b, fmts[i % 2], fmts[(i // 2) % 2]))
    for i in range(len(PCOUNTS) if tier == 'quick' else 3 * len(PCOUNTS)):
        a, b = ENCS[i % len(ENCS)], ENCS[(i // 3 + 1) % len(ENCS)]
        pcases.append((5000 + i, 'mci_ipm_param_encode', a, b, fmts[i % 2], fmts[(i // 2) % 2]))
    from .isocheck import _pool
    outs = _pool(_drive_ipm, [(seed, wd, p) for p in core.split(cases, core.NCPU)])
    results = [x for o in outs for x in o]
    groupsA, groupsB = {}, {}
    for res in results:
        for key, payload in res['viol']:
            payload['case'] = res['desc']
            rep.violation('convert:%s' % key, payload)
        if 'traceA' in res:
            for grp, tr, key in ((groupsA, res['traceA'], (res['tool'].startswith('mci_ipm_encode'), res['a'])),
                                 (groupsB, res['traceB'], (False, res['b']))):
                g = grp.setdefault(key, [])
                tr['tid'] = len(g)
                g.append(tr)
    glist = [(mci_ipm_encode.get_config() if k[0] else PKG['bit_config'], k[1], v) for k, v in groupsA.items()]
    glist += [(PKG['bit_config'], k[1], v) for k, v in groupsB.items()]
    ipmc.validate(rep, wd, glist, owner, 'convert', maxbatch=12)
    rep.extra['ipm_conversions'] = len(results)
    rep.sample({'conversion': results[0]['desc']})
    # parameter tools
    pouts = _pool(_drive_param, [(seed, wd, p) for p in core.split(pcases, core.NCPU)])
    from . import isocheck
    fpc = [c for c in pcases if c[1] == 'mci_ipm_param_encode']
    tpc = [[(100000 + 100 * k + i,) + tuple(c[1:]) for i, c in enumerate(fpc[k::8][:6])] for k in range(8)]
    pouts += isocheck.mark_threaded(isocheck.threaded('harness.c19', '_drive_param', [(seed, wd, p) for p in tpc if p], procs=2))
    ptraces = [t for o in pouts for t in o]
    for t in ptraces:
        for key, payload in t['_viol']:
            payload['case'] = t['_desc']
            rep.violation('paramconvert:%s' % key, payload)
    c18.validate(rep, wd, ptraces, 'paramconvert')
    rep.extra['parameter_conversions'] = len(ptraces)
    rep.sample({'conversion': ptraces[0]['_desc']})
    rep.replayed += len(results) + len(ptraces)
    rep.exhaustive = True
    rep.notes.append('exhaustive over ordered codec pairs x formats; file contents are seeded samples')
    rep.notes.append('observation (not judged): paramconv started from its argument parser without -o passes output=None to open()')


def replay(rep, wd, payload):
    import sys
    core.generic_replay(sys.modules[__name__], rep, wd, payload)
