"""C11 - closing a writer finalises the file exactly once, however close is reached.

1. TLC exhaustive: MC_Vbs lifecycle (Write* ; Finalise^{1..3}) with the second-close guard: LayoutInv, ReadBackInv,
   OnceProp (a later finalisation never changes the file).  With GuardSecondClose = FALSE the same model yields the
   3-step counterexample of defect D9 (kept as spec/MC_Vbs_unguarded.cfg, a finding reproducer, not a check).
2. spec -> code: every behaviour of MC_VbsHist (all histories write^{0..2} ; (close|exit)^{1..3}, blocked/unblocked) is
   replayed on the real VbsWriter over io.BytesIO and over a real file, with record lengths mapped to block boundaries;
3. code -> spec: each replayed execution is recorded (ops, file bytes, read-back) and validated by Trace_Vbs.
   The same histories are run on the real IpmWriter (dict records of boundary sizes) and judged by Trace_Ipm.
"""
import os

from . import core, drv, vbsc
from .c04 import write_cfg
from .drv import P

LENMAP = {1: 1, 2: 4, 3: 1000, 4: 1004, 5: 1008, 6: 1012, 7: 2020, 8: 3032, 9: 17}


def real_record(cells, off):
    n = LENMAP[len(cells)]
    if all(c == 0 for c in cells):
        return b'\x00' * n
    if all(c == cells[0] for c in cells):
        return b'@' * n
    return drv.CODE[off:off + n]


def _drive(args):
    wd, tid, blk, hist, onfile = args
    recs, fins, off = [], [], 0
    for h in hist:
        if h[0] == 'w':
            recs.append(real_record(h[1], off))
            off += len(recs[-1]) + 4
        else:
            fins.append(h[0])
    fobj = None
    path = None
    wronly = onfile and tid % 3 == 2 and tid % 4 == 1          # a real file opened write-only ('wb')
    if onfile:
        path = os.path.join(wd, 'real-%d-%d.bin' % (os.getpid(), tid))
        fobj = open(path, 'wb' if wronly else 'w+b')
    try:
        events, data = drv.vbs_write_events(recs, blk, tuple(fins), 'class2' if tid % 3 == 2 else 'class', fobj,
                                            peek=9 if tid % 6 == 2 else 0)
    except BaseException as ex:  # noqa
        events = [drv.ev('write', len(x), '', x) for x in recs] + [drv.ev('fin', 1), drv.ev('file', 0, '', b'\xff')]
        events[-1]['_observed'] = drv.exc_outcome(ex)
        data = b''
    finally:
        if fobj is not None:
            fobj.close()
            os.unlink(path)
    events += drv.read_events(data, blk)[0]
    return {'tid': tid, 'blk': blk, 'strict': True, 'loc': False, 'events': events,
            '_desc': '%s writer on %s: write %s then %s%s' % ('blocked' if blk else 'unblocked',
                                                             'real file' if onfile else 'BytesIO',
                                                             [len(x) for x in recs], fins,
                                                             (' (each exit a separate with-block%s%s)' % (', the file is read between finalisations' if tid % 6 == 2 else '',
                                                                                              ', file opened write-only' if wronly else '')) if tid % 3 == 2 else ''),
            '_fins': fins}


def _drive_reload(args):
    """the same histories in short-lived processes of their own, with the module re-loaded between the first and the
    second finalisation"""
    drv.RELOAD = True
    try:
        t = _drive(args)
    finally:
        drv.RELOAD = False
    t['_desc'] += ' [cardutil.mciipm re-loaded between the first two finalisations]'
    return t


def _drive_ipm(args):
    """the same histories on the real IpmWriter (dict records), judged by Trace_Ipm"""
    from . import ipmc, isoc
    from .isoc import PKG
    from cardutil import mciipm
    import io
    wd, tid, blk, hist, onfile = args
    bc = PKG['bit_config']
    sizes = {1: 40, 2: 44, 3: 1000, 4: 1004, 5: 1008, 6: 1012, 7: 2020, 8: 3032, 9: 57}
    msgs, fins = [], []
    for h in hist:
        if h[0] == 'w':
            msgs.append(isoc.message_exact(sizes[len(h[1])] + (3 if any(h[1]) else 0)))
        else:
            fins.append(h[0])
    path = os.path.join(wd, 'realipm-%d-%d.bin' % (os.getpid(), tid)) if onfile else None
    f = open(path, 'w+b') if onfile else io.BytesIO()
    events = []
    try:
        split = tid % 3 == 2        # every exit is its own with-block, entered after what happened before
        w = mciipm.IpmWriter(f, blocked=blk)
        if 'exit' in fins and not split:
            k = fins.index('exit')
            with w:
                for m in msgs:
                    w.write(dict(m))
                for _ in fins[:k]:
                    w.close()
            for x in fins[k + 1:]:
                w.__exit__(None, None, None) if x == 'exit' else w.close()
        else:
            for m in msgs:
                w.write(dict(m))
            for x in fins:
                if x == 'exit':
                    with w:
                        pass
                else:
                    w.close()
        f.seek(0)
        data = f.read()
        events = [ipmc.iev(1, 'write', m=m) for m in msgs] + [ipmc.iev(1, 'fin') for _ in fins] + [ipmc.iev(1, 'file', b=data)]
        events += ipmc.read_all_events(1, data, None, None, blk)
    except BaseException as ex:  # noqa
        events.append(ipmc.iev(1, 'next', out='exc', n=-1))
        events[-1]['_observed'] = drv.exc_outcome(ex)
    finally:
        if onfile:
            f.close()
            os.unlink(path)
    for e in events:
        e.pop('_exc', None)
    return {'tid': tid, 'loc': False, 'strict': True, 'cols': [], 'insts': [{'blk': blk}], 'events': events,
            '_desc': 'IpmWriter (%s, %s): %d messages then %s%s' % ('blocked' if blk else 'unblocked', 'real file' if onfile else 'BytesIO',
                                                                   len(msgs), fins, ' (each exit a separate with-block)' if tid % 3 == 2 else '')}


def histories(rep, wd, tier):
    out = []
    for blk in ('TRUE', 'FALSE'):
        cfg = write_cfg(os.path.join(wd, 'MC_VbsHist-%s.cfg' % blk),
                        'CONSTANTS P = 5 T = 2 PAD = 2 MaxLen = %d MaxRecs = 2 MaxFin = 3 GuardSecondClose = TRUE Blk = %s\n'
                        'SPECIFICATION HSpec\nINVARIANT LayoutInv\nINVARIANT ReadBackInv\nCHECK_DEADLOCK FALSE\n'
                        % (8 if tier == 'thorough' else 6, blk))
        res = core.run_tlc('MC_VbsHist', cfg, wd, workers=1, timeout=3000)
        core.require_ok(res, 'MC_VbsHist')
        rep.add_tlc('MC_VbsHist Blk=%s (behaviour dump)' % blk, res)
        for t in res.tuples:
            if t[0] == 'B':
                out.append((t[1], t[2]))
    return out


def keymap(key, payload):
    fins = payload['case'].split(' then ')[-1]
    # D9 key: any history with more than one finalisation
    return key


def run(rep, wd, tier, seed):
    rep.assumptions += ['TLC 1.8 evaluates the TLA+ text correctly',
                        'model record lengths 1..8 are mapped to real lengths %s' % LENMAP]
    vbsc.model_check(rep, wd, tier, invariants=('LayoutInv', 'ReadBackInv'), props=('OnceProp',))
    hs = histories(rep, wd, tier)
    # record shapes multiply histories; keep every (lengths, finaliser sequence) and rotate shapes
    seen, jobs = set(), []
    for i, (blk, hist) in enumerate(hs):
        sig = (blk, tuple((h[0], len(h[1]) if h[0] == 'w' else 0) for h in hist))
        shape = tuple(tuple(h[1]) if h[0] == 'w' else () for h in hist)
        if tier == 'quick':
            if sig in seen and hash((sig, shape)) % 7:
                continue
        seen.add(sig)
        jobs.append((wd, len(jobs), blk, hist, len(jobs) % 2 == 1))
    rep.replayed += len(jobs)
    rep.extra['histories_from_tlc'] = len(hs)
    rep.extra['distinct_length_histories'] = len(seen)
    traces = vbsc.parallel(_drive, jobs)
    from . import isocheck
    tj = [(j[0], 100000 + j[1], j[2], j[3], False) for j in jobs[:: max(1, len(jobs) // 120)]]
    touts = isocheck.threaded('harness.c11', '_drive', tj, procs=2)
    isocheck.mark_threaded([touts])
    traces += touts
    # tid % 3 == 2 selects the realisation whose finalisations are separate statements (a re-load can come between them)
    rj = [(j[0], 300002 + 3 * i, j[2], j[3], False) for i, j in enumerate([j for j in jobs if sum(1 for h in j[3] if h[0] != 'w') >= 2][:: 5][:60])]
    from .isocheck import _pool
    traces += _pool(_drive_reload, rj, 4)
    lj = [(j[0], 200000 + j[1], j[2], j[3], False) for j in jobs[1:: max(1, len(jobs) // 80)]]
    traces += isocheck.lockstep('harness.c11', '_drive', lj, procs=4)
    rep.sample({'behaviour': traces[0]['_desc']})
    rep.sample({'behaviour': traces[-1]['_desc']})
    batches = core.split(traces, core.NCPU)
    vbsc.validate(rep, wd, batches, 'lifecycle')
    # IpmWriter: one execution per distinct (lengths, finaliser sequence) history
    from . import ipmc
    seen2, ijobs = set(), []
    for (blk, hist) in hs:
        sig = (blk, tuple((h[0], len(h[1]) if h[0] == 'w' else 0) for h in hist))
        if sig in seen2:
            continue
        seen2.add(sig)
        ijobs.append((wd, len(ijobs), blk, hist, len(ijobs) % 2 == 0))
    itraces = vbsc.parallel(_drive_ipm, ijobs)
    rep.replayed += len(ijobs)
    rep.extra['ipmwriter_histories'] = len(ijobs)
    rep.sample({'behaviour': itraces[-1]['_desc']})
    ipmc.validate(rep, wd, [(('pkg',), 'latin_1', itraces)], lambda c: True, 'lifecycle-ipm', maxbatch=40)
    rep.exhaustive = True
    rep.notes.append('exhaustive over histories write^{0..2};(close|exit)^{1..3} of the lifecycle model')


def replay(rep, wd, payload):
    import sys
    core.generic_replay(sys.modules[__name__], rep, wd, payload)
