"""Drivers for cardutil.pinblock / cardutil.key (C13, C14) and Trace_Pin validation."""
import binascii

from . import core, drv
from .c04 import validate_batches

from cardutil import pinblock, key as keymod


def digs(s):
    return [int(c) for c in s]


def pev(op, pin='', pan='', idx=0, key=b'', data=b'', parts=(), n=0, supplied=False, kind='ok', out=()):
    return {'op': op, 'pin': digs(pin), 'pan': digs(pan), 'idx': idx, 'key': list(key), 'data': list(data),
            'parts': [list(p) for p in parts], 'n': n, 'supplied': supplied, 'kind': kind, 'out': list(out)}


def call(fn):
    try:
        with drv.Watchdog(5.0):
            return 'ok', fn()
    except BaseException as ex:  # noqa
        return 'exc', drv.exc_outcome(ex)


def nib(hexstr):
    return [int(c, 16) for c in hexstr]


def safe_digits(s):
    return [int(c) for c in s] if isinstance(s, str) and s.isdigit() and s.isascii() else [99]


class Tdes0(pinblock.Iso0PinBlock, pinblock.TdesEncryptedPinBlockMixin, pinblock.VisaPVVPinBlockMixin):
    pass


class Tdes0Variant(Tdes0):
    """a site subclass whose pin-block encryption applies a key variant (HSM style) to the zone PIN key: how the BLOCK is
    encrypted is the site's business, the PVV of the object stays the published algorithm under the PVV key"""

    @staticmethod
    def encrypt(key, data):
        raw = bytes.fromhex(key)
        return pinblock.TdesEncryptedPinBlockMixin.encrypt(bytes([raw[0] ^ 0x08]) .hex() + raw[1:].hex(), data)


class Tdes4(pinblock.Iso4PinBlock, pinblock.TdesEncryptedPinBlockMixin):
    pass


class Aes4(pinblock.Iso4PinBlock, pinblock.AESEncryptedPinBlockMixin, pinblock.VisaPVVPinBlockMixin):
    pass


class Aes0pad(pinblock.Iso4PinBlock, pinblock.AESEncryptedPinBlockMixin):
    pass


def describe(t, r):
    e = t['events'][min(r[2], len(t['events'])) - 1]
    return {'case': t['_desc'], 'op': e['op'], 'clause': r[3], 'pin': ''.join(map(str, e['pin'])), 'pan': ''.join(map(str, e['pan'])),
            'key_hex': bytes(e['key']).hex(), 'data_hex': bytes(e['data']).hex(), 'observed_kind': e['kind'],
            'observed': e.get('_observed') or (bytes(x & 255 for x in e['out']).hex() if e['op'] in ('iso0', 'iso4', 'tdes', 'aes') else e['out'])}


def validate(rep, wd, traces, prefix, nb=None):
    validate_batches(rep, wd, 'Trace_Pin', 'Trace_Pin.cfg', core.split(traces, nb or core.NCPU), prefix, describe)
