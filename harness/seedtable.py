"""Prints the markdown table of seeded changes (DESIGN 8.6) from seeded/*/meta.json and the log of the
pre-strengthening run (seeded/old_checks.log)."""
import json
import os
import re

VERIF = os.path.dirname(os.path.dirname(os.path.abspath(__file__)))


def main():
    old = {}
    for fn in ('old_checks.log', 'old_checks_round2.log', 'old_checks_round3.log', 'old_checks_round4.log', 'old_checks_round5.log', 'old_checks_round6.log', 'old_checks_round7.log', 'old_checks_round8.log', 'old_checks_round9.log', 'old_checks_round10.log'):
        p = os.path.join(VERIF, 'seeded', fn)
        if not os.path.exists(p):
            continue
        for line in open(p):
            m = re.match(r'(\S+) old-check exit=(\d+) violations=(\d+)', line)
            if m:
                old[m.group(1)] = int(m.group(2))
    print('| change | what it needs to manifest | first version of the check | current check (quick) | clauses |')
    print('|---|---|---|---|---|')
    for name in sorted(os.listdir(os.path.join(VERIF, 'seeded'))):
        mp = os.path.join(VERIF, 'seeded', name, 'meta.json')
        if not os.path.exists(mp):
            continue
        meta = json.load(open(mp))
        need = ' '.join(meta.get('needs_to_manifest', '').split())
        need = re.sub(r'\|', '/', need)[:230]
        det = (meta.get('detection_latest') or {}).get('results') or (meta.get('detection') or {}).get('quick') or (meta.get('detection_on_copy') or {}).get('quick') or {}
        r = det.get(meta['property'], {})
        cur = 'caught' if r.get('exit') == 1 else ('MISSED' if r else 'not run')
        o = old.get(name)
        first = 'caught' if o == 1 else ('missed' if o in (0, 2) else '-')
        print('| %s | %s | %s | %s | %s |' % (name, need, first, cur, ', '.join(c.split(':')[-1] for c in r.get('clauses', [])[:3])))


if __name__ == '__main__':
    main()
