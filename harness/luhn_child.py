"""Child process (run with `python -O` or plain): reads a JSON list of numbers on stdin, calls
cardutil.card.validate_check_digit on each, prints a JSON list of outcome kinds."""
import json
import os
import sys

sys.path.insert(0, os.environ.get('CARDUTIL_REPO', '/repo'))
from cardutil import card  # noqa: E402


def main():
    nums = json.load(sys.stdin)
    out = []
    for n in nums:
        try:
            card.validate_check_digit(n)
            out.append('ok')
        except AssertionError:
            out.append('assert')
        except BaseException as ex:  # noqa
            out.append('exc:' + type(ex).__name__)
    json.dump({'optimised': not __debug__, 'out': out}, sys.stdout)


if __name__ == '__main__':
    main()
