"""C04 - 1014 blocking: output is well-formed and data-exact for every write sequence.

1. TLC exhaustive: MC_Blocker (cell level, small P): NoLossInv, FinalInv, OneShotInv, SkelRefines.
2. spec -> code: BlockInt at P = 1012 enumerates every (first write a [one call or split], next write n) behaviour;
   each is replayed on the real Block1014 with position-coded content and compared with render(Finals).
3. code -> spec: recorded write histories with concrete (adversarial) bytes are validated by Trace_Block at P = 1012.
"""
import os
from concurrent.futures import ProcessPoolExecutor, ThreadPoolExecutor

from . import core, drv
from .drv import P, T, CODE, FINALISERS, render_blocks, min_blocks


def write_cfg(path, text):
    with open(path, 'w') as f:
        f.write(text)
    return path


# ------------------------------------------------------------------ 2. streaming replay

def _replay_part(args):
    wd, part, aset, nmax = args[:4]
    nbig = args[4] if len(args) > 4 else ()
    cfg = write_cfg(os.path.join(wd, 'BlockInt-%d.cfg' % part),
                    'CONSTANTS P = %d T = %d PAD = 64 NMax = %d\nCONSTANT AS = {%s}\nCONSTANT NBig = {%s}\n'
                    'SPECIFICATION Spec\nINVARIANT RemRange\nINVARIANT FileLen\nINVARIANT FinalBlocks\n'
                    'INVARIANT FinalWhole\nINVARIANT ApaAgrees\nCHECK_DEADLOCK FALSE\n' % (
                        P, T, nmax, ', '.join(map(str, aset)), ', '.join(map(str, nbig))))
    big = b''
    if nbig:
        big = bytes(((i % 251) * 7 + ((i // 251) % 241) * 13 + 1) % 256 or 1 for i in range(max(aset) + max(nbig)))
        big = big.replace(b'@', b'A')
    bad, drift, count = [], 0, 0
    sample = []

    def on_line(line):
        nonlocal drift, count
        v = core.parse_tla_value(line.strip())
        _, a, c, n, rem2, kimpl = v
        count += 1
        data = CODE[:a + n] if a + n <= len(CODE) else big[:a + n]
        first = [data[:a]] if c == 0 else [data[:a // 2], data[a // 2:a]]
        fin = FINALISERS[(a + n + c) % 3]
        try:
            got = drv.run_blocker(first + [data[a:]], fin)
        except BaseException as ex:  # noqa
            bad.append({'a': a, 'split': c, 'n': n, 'finaliser': fin, 'observed': drv.exc_outcome(ex)})
            return
        kmin = min_blocks(a + n)
        if got != render_blocks(data, kmin) and got != render_blocks(data, kmin + 1):
            if len(bad) < 20:
                bad.append({'a': a, 'split': c, 'n': n, 'finaliser': fin, 'observed_len': len(got),
                            'allowed': 'Blocks(data,%d) or Blocks(data,%d)' % (kmin, kmin + 1),
                            'first_diff': next((i for i, (x, y) in enumerate(zip(got, render_blocks(data, kmin + 1)))
                                                if x != y), min(len(got), (kmin + 1) * (P + T)))})
            else:
                bad.append(None)
        elif got != render_blocks(data, kimpl):
            drift += 1
        if len(sample) < 2 and n > P and a % 7 == 3:
            sample.append({'behaviour': 'write(%d)%s; write(%d); %s' % (a, ' as two calls' if c else '', n, fin),
                           'expected_blocks': kimpl, 'file_len': len(got)})

    res = core.run_tlc('BlockInt', cfg, wd, workers=1, timeout=3000, line_cb=on_line)
    if not res.ok:
        raise core.MachineryError('BlockInt invariant failed:\n' + res.stdout[-2000:])
    return {'gen': res.generated, 'dist': res.distinct, 'count': count, 'bad': bad, 'drift': drift,
            'sample': sample, 'wall': res.wall}


def stream_replay(rep, wd, tier, seed):
    if tier == 'thorough':
        aset = list(range(0, 2 * P + 1))
    else:
        r = drv.rng(seed, 'c04-aset')
        base = {0, 1, 2, 3, P - 2, P - 1, P, P + 1, P + 2, 2 * P - 1, 2 * P, 2 * P - 2, 1011, 506}
        while len(base) < 40:
            base.add(r.randrange(0, 2 * P + 1))
        aset = sorted(base)
    nmax = 3 * P
    parts = core.split(aset, core.NCPU)
    with ProcessPoolExecutor(len(parts)) as ex:
        outs = list(ex.map(_replay_part, [(wd, i, p, nmax) for i, p in enumerate(parts)]))
    # single writes of a megabyte and more (over a thousand blocks in one call)
    bigset = (1012 * 1200, 1012 * 1200 + 1, 1100000, 2000003)
    ob = _replay_part((wd, 99, [0, 5, 1011, 1012], 0, bigset))
    outs.append(ob)
    nbigbeh = ob['count']
    total = 0
    for o in outs:
        rep.states += o['dist']
        rep.transitions += o['gen']
        total += o['count']
        for b in o['bad']:
            rep.violation('blocker-final-file', b or {'more': 'suppressed'})
        for s in o['sample']:
            rep.sample(s)
        if o['drift']:
            rep.notes.append('spec_drift: %d behaviours ended with a different (still admissible) number of blocks '
                             'than the implementation-shaped spec' % o['drift'])
    rep.replayed += total
    rep.tlc_runs.append({'run': 'BlockInt P=1012 streaming', 'behaviours': total,
                         'first_writes': len(aset), 'next_lengths': nmax + 1})
    expected = 2 * len(aset) * (nmax + 1) + nbigbeh
    rep.extra['single_writes_of_a_megabyte'] = nbigbeh
    if total != expected:
        raise core.MachineryError('BlockInt printed %d behaviours, expected %d' % (total, expected))
    rep.extra['stream_exhaustive_over'] = 'first write in %s x split in {one call, two calls} x next write 0..%d' % (
        'all of 0..2P' if tier == 'thorough' else '%d sampled/boundary values of 0..2P' % len(aset), nmax)


# ------------------------------------------------------------------ 3. trace validation

def gen_history(r):
    """A write history biased to block boundaries; returns list of byte strings."""
    if r.random() < 0.2:
        # one long write, then a tail of several very short writes around the end of the block
        first = r.choice((P - 9, P - 7, P - 5, P - 3, P - 1, 2 * P - 6, 2 * P - 2, P + 1005, r.randrange(P - 12, P)))
        tail = [r.randrange(1, 8) for _ in range(r.choice((2, 2, 3, 4, 6)))]
        out, pos = [], 0
        for n_ in [first] + tail:
            out.append(CODE[pos:pos + n_])
            pos += n_
        return out
    k = r.choice((1, 1, 2, 2, 3, 3, 4, 5, 6, 8))
    style = r.choice(('code', 'code', 'pad', 'zero', 'mix', 'rand'))
    chunks = []
    written = 0
    for _ in range(k):
        room = P - (written % P)
        n = r.choice((0, 1, 2, room - 1, room, room + 1, room + P, room + P - 1, room + P + 1, P, P + 1, 2 * P,
                      r.randrange(0, 40), r.randrange(0, 3 * P)))
        n = max(0, n)
        if written + n > 6 * P:
            n = r.randrange(0, 30)
        if style == 'code':
            c = CODE[written:written + n]
        else:
            c = drv.content(r, n, style)
        chunks.append(c)
        written += n
    return chunks


def _drive_traces(args):
    seed, lo, hi = args
    traces = []
    for tid in range(lo, hi):
        r = drv.rng(seed, 'c04-trace', tid)
        chunks = gen_history(r)
        fin = FINALISERS[tid % 3]
        ev = [{'op': 'write', 'n': len(c), 'bytes': list(c)} for c in chunks]
        try:
            got = drv.run_blocker(chunks, fin, hazards=(tid % 5 == 4))
            ev.append({'op': 'final', 'n': 0, 'bytes': list(got)})
        except BaseException as ex:  # noqa
            ev.append({'op': 'final', 'n': 0, 'bytes': [-1]})
            ev[-1]['_exc'] = drv.exc_outcome(ex)['cls']
        if tid % 3 == 0:
            ev.append({'op': 'oneshot', 'n': 0, 'bytes': list(drv.run_oneshot_block(b''.join(chunks)))})
        traces.append({'tid': tid, 'kind': 'blocker', 'file': [], 'events': ev,
                       '_desc': 'writes %s then %s' % ([len(c) for c in chunks], fin)})
    return traces


def validate_batches(rep, wd, module, cfg, batches, key_prefix, describe):
    """Run one TLC per batch in parallel; turn REJECT lines into violations."""
    def one(i):
        return core.tlc_batch(module, cfg, wd, {'traces': batches[i]}, '%s-batch%d' % (module, i), workers=1)
    with ThreadPoolExecutor(min(core.NCPU, len(batches))) as ex:
        outs = list(ex.map(one, range(len(batches))))
    for i, (acc, rejects, res) in enumerate(outs):
        rep.add_tlc('%s batch %d' % (module, i), res)
        rep.traces += len(batches[i])
        by_id = {t['tid']: t for t in batches[i]}
        for r in rejects:
            t = by_id[r[1]]
            rep.violation('%s:%s' % (key_prefix, r[3]), describe(t, r))
        for n in res.tuples:
            if n and n[0] == 'NOTE':
                rep.notes.append('trace %s event %s: %s' % (n[1], n[2], n[3]))
    rep.notes[:] = rep.notes[:20]


def n_traces_big(batches):
    return 10 ** 6


def trace_validation(rep, wd, tier, seed):
    n = 3000 if tier == 'thorough' else 320
    chunks = core.split(list(range(n)), core.NCPU)
    with ProcessPoolExecutor(len(chunks)) as ex:
        batches = list(ex.map(_drive_traces, [(seed, c[0], c[-1] + 1) for c in chunks]))
    from . import isocheck
    batches += isocheck.mark_threaded(isocheck.threaded('harness.c04', '_drive_traces', [(seed, 10000 + 40 * k, 10000 + 40 * k + 40) for k in range(8)], procs=2))
    # two blockers alive at the same time, written to alternately (the turn changes at every write)
    batches += isocheck.lockstep('harness.c04', '_drive_traces', [(seed, 12000 + 30 * k, 12000 + 30 * k + 30) for k in range(8)], procs=4)
    # large inputs: more than 64 KiB through one blocker and through the one-shot function
    big = []
    for i, total in enumerate((65536 + 300, 70000, 131072 + 17)):
        r = drv.rng(seed, 'c04-big', i)
        data = bytes((j * 7 + j // 251) % 251 + 1 if (j * 7 + j // 251) % 251 + 1 != 64 else 65 for j in range(total))
        chunks, pos = [], 0
        while pos < total:
            n = min(total - pos, r.choice((total, 4096, 65536, 1012, 70000)))
            chunks.append(data[pos:pos + n])
            pos += n
        evs = [{'op': 'write', 'n': len(c), 'bytes': list(c)} for c in chunks]
        evs.append({'op': 'final', 'n': 0, 'bytes': list(drv.run_blocker(chunks, FINALISERS[i % 3]))})
        evs.append({'op': 'oneshot', 'n': 0, 'bytes': list(drv.run_oneshot_block(data))})
        big.append({'tid': n_traces_big(batches) + i, 'kind': 'blocker', 'file': [], 'events': evs,
                    '_desc': '%d bytes in %d writes, then the one-shot blocker on the same data' % (total, len(chunks))})
    batches.append(big)
    rep.sample({'trace': batches[0][1]['_desc'], 'file_len': len(batches[0][1]['events'][-1]['bytes'])})

    def describe(t, r):
        return {'history': t['_desc'], 'event': r[2], 'clause': r[3],
                'writes_hex': [bytes(e['bytes']).hex()[:80] for e in t['events'] if e['op'] == 'write'][:6],
                'observed_len': len(t['events'][r[2] - 1]['bytes'])}
    validate_batches(rep, wd, 'Trace_Block', 'Trace_Block.cfg', batches, 'blocker-trace', describe)


def apalache_induction(rep, wd):
    """unbounded histories and write lengths: inductive invariant of the integer skeleton, discharged by Apalache"""
    import subprocess
    import time
    out = os.path.join(wd, 'apalache')
    obligations = [('Init => IndInv', ['--init=Init', '--inv=IndInv', '--length=0']),
                   ('IndInv /\\ Next => IndInv\' /\\ FinalLen\'', ['--init=IndInit', '--inv=Inv', '--length=1'])]
    done = []
    for name, args in obligations:
        t0 = time.time()
        try:
            p = subprocess.run(['apalache-mc', 'check'] + args + ['--out-dir=' + out, 'BlockIntInd.tla'], cwd=core.SPEC,
                               stdout=subprocess.PIPE, stderr=subprocess.STDOUT, text=True, timeout=600)
        except subprocess.TimeoutExpired:
            raise core.MachineryError('Apalache timed out on ' + name)
        if 'EXITCODE: OK' not in p.stdout:
            raise core.MachineryError('Apalache did not discharge %s:\n%s' % (name, p.stdout[-1500:]))
        done.append({'obligation': name, 'wall_s': round(time.time() - t0, 1)})
    rep.extra['apalache_inductive_invariant'] = {'module': 'spec/BlockIntInd.tla', 'discharged': done,
                                                 'meaning': 'for write histories of any length with write lengths over all '
                                                 'naturals the skeleton keeps IndInv and finalises to a whole number of blocks, '
                                                 'the least possible or one more'}


def model_check(rep, wd, tier):
    cfg = write_cfg(os.path.join(wd, 'MC_Blocker.cfg'),
                    'CONSTANTS P = %d T = 2 PAD = 0 MaxWrites = %d MaxLen = %d\nSPECIFICATION MCSpec\n'
                    'INVARIANT NoLossInv\nINVARIANT FinalInv\nINVARIANT OneShotInv\nINVARIANT RemInv\n'
                    'PROPERTY SkelRefines\nCHECK_DEADLOCK FALSE\n' % ((5, 5, 16) if tier == 'thorough' else (4, 4, 13)))
    res = core.run_tlc('MC_Blocker', cfg, wd, workers=core.NCPU, timeout=1500)
    core.require_ok(res, 'MC_Blocker')
    rep.add_tlc('MC_Blocker exhaustive', res)


def run(rep, wd, tier, seed):
    rep.assumptions += ['TLC 1.8 evaluates the TLA+ text correctly',
                        'harness/drv.py render_blocks is the rendering of Blocks(d,k) (cross-checked: the trace '
                        'direction compares concrete bytes inside TLC without it)',
                        'wrapped file objects: in-memory buffers, real files, pipe-like streams, gzip file objects (harness/drv.py)']
    model_check(rep, wd, tier)
    apalache_induction(rep, wd)
    stream_replay(rep, wd, tier, seed)
    trace_validation(rep, wd, tier, seed)
    rep.exhaustive = tier == 'thorough'


def replay(rep, wd, payload):
    p = payload['payload']
    if 'a' in p:
        a, c, n = p['a'], p['split'], p['n']
        data = CODE[:a + n] if a + n <= len(CODE) else big[:a + n]
        first = [data[:a]] if c == 0 else [data[:a // 2], data[a // 2:a]]
        got = drv.run_blocker(first + [data[a:]], p['finaliser'])
        k = min_blocks(a + n)
        if got not in (render_blocks(data, k), render_blocks(data, k + 1)):
            rep.violation(payload['key'], p)
    else:
        import sys
        core.generic_replay(sys.modules[__name__], rep, wd, payload)
