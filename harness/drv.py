"""Drivers and renderers shared by the stream checks (C03, C04, C05, C09, C11): they perform calls on the real
objects of /repo's working tree and project what is observable (bytes, exception class) to JSON-able values.
No interpretation of the bytes happens here (DESIGN 2.3)."""
import io
import os
import warnings
import random
import signal
import time
import sys

sys.path.insert(0, os.environ.get('CARDUTIL_REPO', '/repo'))
warnings.filterwarnings('ignore')

from cardutil import mciipm, CardutilError  # noqa: E402
import logging  # noqa: E402
logging.disable(logging.CRITICAL)   # the library warns on every short read; the checks read millions of them

_NULL = logging.NullHandler()
logging.getLogger().addHandler(_NULL)      # installed from the start: the tools' logging.basicConfig() then adds nothing


def debug_logging(on):
    """The library's debug logging as the tools' --debug option switches it on (logging.basicConfig(level=DEBUG));
    the records go to a handler that drops them.  What the library does may not depend on it."""
    root = logging.getLogger()
    if on:
        if _NULL not in root.handlers:
            root.addHandler(_NULL)
        root.setLevel(logging.DEBUG)
        logging.disable(logging.NOTSET)
    else:
        logging.disable(logging.CRITICAL)
        root.setLevel(logging.WARNING)


RELOAD = False        # set by c11._drive_reload(): importlib.reload(cardutil.mciipm) between two finalisations
THREADED = False      # set by isocheck.threaded(): several harness threads drive the library at once; the process-wide
                      # environment switches (Env) and the signal-based watchdog are then left alone


DST_TZ = 'CET-1CEST,M3.5.0,M10.5.0/3'      # a POSIX rule (no tz database needed): clocks skip 02:00-03:00 on the last Sunday of March


class Env:
    """Environment of one judged history.  A deterministic fraction (chosen from `key` by a CRC, never from process-local
    counters) runs in an environment other than the plain one:
      debug   - the library's debug logging switched on (what the tools' --debug does)
      warnerr - warnings turned into errors (python -W error / PYTHONWARNINGS=error / pytest filterwarnings=error)
      decctx  - the application's decimal context has 6 digits of precision and traps Inexact
      tz      - the process time zone has daylight saving (TZ set to a POSIX rule, time.tzset())
    The specification does not know the environment: a history recorded under another environment is judged exactly
    like any other."""
    MODES = (('debug',), ('warnerr',), ('debug',), ('decctx',), ('warnerr', 'debug'), ('tz',), ('debug',), ('warnerr', 'decctx', 'tz'))

    def __init__(self, *key, every=3, allow=('debug', 'warnerr', 'decctx', 'tz')):
        import zlib
        h = zlib.crc32(repr(key).encode())
        self.modes = ()
        if every > 0 and h % every == 1:
            self.modes = tuple(m for m in self.MODES[(h // every) % len(self.MODES)] if m in allow)
        if THREADED:
            self.modes = ()
        self.on = 'debug' in self.modes
        self._undo = []

    def __enter__(self):
        import decimal
        import time
        for m in self.modes:
            if m == 'debug':
                debug_logging(True)
                self._undo.append(lambda: debug_logging(False))
            elif m == 'warnerr':
                cw = warnings.catch_warnings()
                cw.__enter__()
                warnings.simplefilter('error')
                self._undo.append(lambda cw=cw: cw.__exit__(None, None, None))
            elif m == 'decctx':
                old = decimal.getcontext()
                decimal.setcontext(decimal.Context(prec=6, traps=[decimal.InvalidOperation, decimal.DivisionByZero,
                                                                  decimal.Overflow, decimal.Inexact]))
                self._undo.append(lambda old=old: decimal.setcontext(old))
            elif m == 'tz':
                old = os.environ.get('TZ')

                def undo(old=old):
                    if old is None:
                        os.environ.pop('TZ', None)
                    else:
                        os.environ['TZ'] = old
                    time.tzset()
                os.environ['TZ'] = DST_TZ
                time.tzset()
                self._undo.append(undo)
        return self

    def __exit__(self, *a):
        while self._undo:
            self._undo.pop()()
        return False


P, T, PAD = 1012, 2, 0x40


def _mkcode(n):
    out = bytearray(n)
    for i in range(n):
        b = ((i % 251) * 7 + ((i // 251) % 241) * 13 + 1) % 256
        if b == PAD:
            b = 0x41
        out[i] = b
    return bytes(out)


CODE = _mkcode(70000)   # position-coded content, never PAD


def render_blocks(data, k):
    """Blocks(d, k) of spec/Blocks.tla, as bytes: a function from the abstract state to bytes."""
    return b''.join(data[j * P:(j + 1) * P].ljust(P, b'@') + b'@@' for j in range(k))


def min_blocks(n):
    return (n + P - 1) // P


class Watchdog:
    """SIGALRM watchdog: a call that does not return within `secs` is reported as outcome `hang`."""

    class Hang(BaseException):
        pass

    def __init__(self, secs=2.0):
        self.secs = secs

    def _fire(self, *_):
        raise Watchdog.Hang()

    def __enter__(self):
        import threading
        self.active = not THREADED and threading.current_thread() is threading.main_thread()
        if self.active:
            self.old = signal.signal(signal.SIGALRM, self._fire)
            signal.setitimer(signal.ITIMER_REAL, self.secs)
        return self

    def __exit__(self, *a):
        if self.active:
            signal.setitimer(signal.ITIMER_REAL, 0)
            signal.signal(signal.SIGALRM, self.old)
        return False


def exc_outcome(ex):
    """Project an exception: library error (by MRO, not by name equality) or other."""
    if isinstance(ex, Watchdog.Hang):
        return {'kind': 'hang', 'cls': 'Hang'}
    if isinstance(ex, CardutilError):
        ctx = getattr(ex, 'binary_context_data', None)
        return {'kind': 'liberr', 'cls': type(ex).__name__,
                'mro': [c.__name__ for c in type(ex).__mro__],
                'record_number': getattr(ex, 'record_number', None),
                'context': list(ctx) if isinstance(ctx, (bytes, bytearray)) else None}
    return {'kind': 'exc', 'cls': type(ex).__name__, 'msg': str(ex)[:200]}


FINALISERS = ('finalise', 'seek0', 'close')


class Headroom:
    """The library called from a caller that has little stack left: `frames` Python frames between the call and the
    interpreter's recursion limit (an application deep inside a framework, a recursive-descent caller, a lowered
    sys.setrecursionlimit).  The unchanged library needs 22 frames at most for any message (measured with a profiler
    over generated corpora, debug logging on and off); 120 are left."""

    def __init__(self, frames=120, on=True):
        self.frames = frames
        self.on = on and not THREADED
        self.old = None

    def __enter__(self):
        if self.on:
            depth = 0
            f = sys._getframe()
            while f is not None:
                depth += 1
                f = f.f_back
            self.old = sys.getrecursionlimit()
            sys.setrecursionlimit(depth + self.frames)
        return self

    def __exit__(self, *a):
        if self.old is not None:
            sys.setrecursionlimit(self.old)
        return False


class Baton:
    """Two harness threads in strict alternation: exactly one of them runs, and the turn changes hands at every yield
    point (between two operations of a driver, around every file transfer).  A deterministic schedule for "two objects
    alive at the same time and used alternately" - what a caller does who copies one file to two outputs, merges two
    inputs, or consumes two readers with zip()."""

    def __init__(self):
        import threading
        self.cv = threading.Condition()
        self.turn = 0
        self.alive = {0, 1}

    def begin(self, me):
        with self.cv:
            self.cv.wait_for(lambda: self.turn == me or (1 - me) not in self.alive)

    def hand_over(self, me):
        with self.cv:
            if (1 - me) in self.alive:
                self.turn = 1 - me
                self.cv.notify_all()
                self.cv.wait_for(lambda: self.turn == me or (1 - me) not in self.alive)

    def done(self, me):
        with self.cv:
            self.alive.discard(me)
            self.turn = 1 - me
            self.cv.notify_all()


_TL = __import__('threading').local()


def yield_point():
    """between two operations of a history / around a file transfer: other threads may run here (threads dimension); in
    lock-step mode the turn goes to the partner thread."""
    b = getattr(_TL, 'baton', None)
    if b is not None:
        b[0].hand_over(b[1])
    elif THREADED:
        time.sleep(0)


class YieldingIO(io.BytesIO):
    """A file object implemented in Python that lets other threads run around every transfer - what a device, a pipe, a
    compressing wrapper or a network file does by blocking.  Used for every file when several harness threads drive the
    library at once: data handed over or taken must be the caller's own by the time the call returns."""

    def read(self, *a):
        r = super().read(*a)
        yield_point()
        return r

    def readinto(self, b):
        n = super().readinto(b)
        yield_point()
        return n

    def write(self, b):
        yield_point()
        return super().write(b)


class PipeLike(io.BytesIO):
    """What a pipe, a socket file or a piped stdin / stdout looks like to the library: sequential transfers only.
    tell() and seek() exist and raise, there is no descriptor; reads are complete until the data end (as through a
    BufferedReader).  Whatever the library raises from a rewind it cannot perform, the BYTES that went through are judged."""

    def seekable(self):
        return False

    def seek(self, *a):
        raise io.UnsupportedOperation('underlying stream is not seekable')

    def tell(self):
        raise OSError(29, 'Illegal seek')

    def fileno(self):
        raise io.UnsupportedOperation('fileno')

    def truncate(self, *a):
        raise io.UnsupportedOperation('truncate')

    def close(self):
        self.closed_value = self.getvalue()
        super().close()


class SizedIO(io.BytesIO):
    """a buffer object that reports its size through len() - empty (and therefore falsy) when it is handed over"""

    def __len__(self):
        return self.getbuffer().nbytes


def pick(n, *key):
    import zlib
    return zlib.crc32(repr(key).encode()) % n


def new_file(data=b'', kind=None):
    if THREADED:
        return YieldingIO(data)
    if kind == 'pipe':
        return PipeLike(data)
    if kind == 'sized':
        return SizedIO(data)
    return io.BytesIO(data)


class KeepOpen(io.BytesIO):
    """BytesIO whose content survives close() (Block1014.close closes the wrapped file)."""

    def close(self):
        self.closed_value = self.getvalue()
        super().close()


class KeepOpenYielding(YieldingIO):
    def close(self):
        self.closed_value = self.getvalue()
        super().close()


def run_blocker(chunks, finaliser, hazards=False):
    """Perform write(chunk)... then the finaliser on a real Block1014; return the wrapped file's bytes."""
    with Env('blk', [len(c) for c in chunks[:12]], finaliser):
        return _run_blocker(chunks, finaliser, hazards)


HEADERS = (b'SITE-HEADER-14', b'#' * 100, b'@' * 1014 + b'job 4711\n')


def _run_blocker(chunks, finaliser, hazards):
    kind = 0 if THREADED else pick(7, 'blkfile', [len(c) for c in chunks[:6]], finaliser)
    header = b''
    if kind == 3:
        f = PipeLike()                       # an output that cannot be rewound (stdout, a pipe to a transfer program)
    else:
        f = KeepOpenYielding() if THREADED else KeepOpen()
        if kind == 5:
            # the file is handed over positioned behind something the caller wrote first (a transport header; append mode)
            header = HEADERS[pick(3, 'hdr', len(chunks))]
            f.write(header)
    got = _run_blocker_on(f, chunks, finaliser, hazards, kind == 3)
    if header:
        return got[len(header):] if got[:len(header)] == header else got
    return got


def _run_blocker_on(f, chunks, finaliser, hazards, pipe):
    b = mciipm.Block1014(f)
    buf = bytearray(max([len(c) for c in chunks] + [1]))
    for i, c in enumerate(chunks):
        if hazards and i % 3 == 1:
            # the caller re-uses one mutable buffer for every piece (readinto / pack_into style)
            buf[:len(c)] = c
            b.write(memoryview(buf)[:len(c)])
            buf[:len(c)] = bytes(len(c))          # ... and overwrites it straight afterwards
        else:
            yield_point()
            b.write(c)
        if hazards and i % 4 == 2:
            try:
                b.write('text passed by mistake' * (1 + i))      # refused before anything is written
            except TypeError:
                pass
    if finaliser == 'finalise':
        b.finalise()
    elif finaliser == 'seek0' and pipe:
        try:
            b.seek(0)                # finalises, then the rewind of the stream fails: that is the stream's business
        except (OSError, io.UnsupportedOperation):
            pass
    elif finaliser == 'seek0':
        b.seek(0)
        if (len(chunks) + sum(len(c) for c in chunks[:3])) % 2:
            # the caller looks at the head of the finished file, and the blocker object goes away (end of the producing
            # function, garbage collection) before the file is used
            f.read(4)
            del b                # (reference counting finalises the object at once)
    else:
        b.close()
        return f.closed_value
    return f.getvalue()


def run_oneshot_block(data):
    out = new_file()
    mciipm.block_1014(new_file(data), out)
    return out.getvalue()


def run_unblocker(blocked, sizes):
    """sizes: list of ints; 0 means read() with no argument. Returns list of returned byte strings."""
    with Env('unblk', len(blocked), sizes[:12]):
        k200 = pick(200, 'ufile', len(blocked), sizes[:6]) if not THREADED else 0
        kind = 5 if k200 == 5 else (k200 % 9 if k200 % 9 in (2, 7) else 0)
        gz = None
        if kind == 5:
            import gzip
            import tempfile
            fd, gz = tempfile.mkstemp(prefix='ub-', suffix='.gz', dir=os.path.join(os.path.dirname(os.path.dirname(os.path.abspath(__file__))), '.work'))
            os.close(fd)
            with gzip.open(gz, 'wb') as zf:
                zf.write(blocked)
            f = gzip.open(gz, 'rb')          # fileno() names the compressed file, read()/tell() the uncompressed data
        elif kind == 2:
            f = new_file(blocked, kind='pipe')
        elif kind == 7:
            hdr = HEADERS[pick(3, 'uhdr', len(blocked))]
            f = io.BytesIO(hdr + blocked)
            f.seek(len(hdr))
        else:
            f = new_file(blocked)
        flaky = kind == 0 and not THREADED and pick(5, 'uflaky', len(blocked), sizes[:5]) == 3
        if flaky:
            # a source whose read fails once with a transient error (a time-out of a network file) BEFORE anything is
            # consumed; the caller catches it and repeats the same read on the same unblocker
            f = FlakyIO(blocked, 2 + pick(4, 'uflakyat', len(blocked), sizes[:3]))
        try:
            # a site subclass that translates what it hands out (EBCDIC-to-ASCII style; here an involution, undone below):
            # what the base class returns to it must be the payload stream itself, for sized and unsized reads alike
            sub = pick(4, 'usub', len(blocked), sizes[:8]) == 2
            u = _TranslatingUnblocker(f) if sub else mciipm.Unblock1014(f)
            if (len(blocked) + len(sizes)) % 3 == 1 and kind == 0:
                f.seek(0)                # the caller positions the file after wrapping it: nothing has been read yet
            outs = []
            for n in sizes:
                yield_point()
                try:
                    outs.append(u.read() if n == 0 else u.read(n))
                except TimeoutError:
                    if not flaky:
                        raise
                    outs.append(u.read() if n == 0 else u.read(n))
            if sub:
                outs = [o.translate(_FLIP) if isinstance(o, (bytes, bytearray)) else o for o in outs]
        finally:
            if gz:
                f.close()
                os.unlink(gz)
    return outs


class FlakyIO(io.BytesIO):
    def __init__(self, data, fail_at):
        super().__init__(data)
        self.calls = 0
        self.fail_at = fail_at

    def read(self, *a):
        self.calls += 1
        if self.calls == self.fail_at:
            raise TimeoutError('transient: nothing was consumed')
        return super().read(*a)


_FLIP = bytes(255 - i for i in range(256))


class _TranslatingUnblocker(mciipm.Unblock1014):
    def read(self, *size):
        data = super().read(*size)
        return data.translate(_FLIP) if isinstance(data, (bytes, bytearray)) else data


def run_oneshot_unblock(blocked):
    out = new_file()
    try:
        mciipm.unblock_1014(new_file(blocked), out)
    except BaseException as ex:  # noqa
        return exc_outcome(ex), b''
    return {'kind': 'ok'}, out.getvalue()


def slurp(path, mode='rb', **kw):
    with open(path, mode, **kw) as fh:
        return fh.read()


def spit(path, data, mode='wb', **kw):
    with open(path, mode, **kw) as fh:
        fh.write(data)


def rng(seed, *salt):
    return random.Random('%d/%s' % (seed, '/'.join(map(str, salt))))


def content(r, n, style):
    """n bytes of content: 'code' position-coded (caller slices CODE), or adversarial."""
    if style == 'pad':
        return b'@' * n
    if style == 'zero':
        return b'\x00' * n
    if style == 'mix':
        return bytes(r.choice((0x40, 0x00, 0x40, 0x31, 0xff)) for _ in range(n))
    return bytes(r.randrange(256) for _ in range(n))


# ------------------------------------------------------------------ VBS writer / reader drivers

def max_vbs_len():
    from cardutil import config
    return config.config.get('MAX_VBS_RECORD_LENGTH', 6000)


def ev(op, n=0, out='', b=b''):
    return {'op': op, 'n': n, 'out': out, 'bytes': list(b)}


class _Leave(Exception):
    pass


class _LeaveBase(BaseException):
    pass


def vbs_write_events(recs, blocked, fins=('close',), api='class', fileobj=None, peek=0):
    """Perform the writer history on the real code. fins: sequence of 'close' / 'exit'
    ('exit' = leaving a `with` block; 'close','exit' = close() inside the block then leaving it).
    Returns (events, file bytes)."""
    with Env('vbsw', [len(r) for r in recs[:12]], blocked, list(fins), api):
        return _vbs_write_events(recs, blocked, fins, api, fileobj, peek)


def _vbs_write_events(recs, blocked, fins, api, fileobj, peek):
    events = [ev('write', len(r), '', r) for r in recs]
    if api == 'func':
        # a list, a tuple, or a one-shot iterable (the parameter is documented as an iterable of byte strings)
        src = (recs, tuple(recs), iter(recs), (x for x in recs))[(len(recs) + len(recs[0] if recs else b'')) % 4]
        data = mciipm.vbs_list_to_bytes(src, blocked=blocked)
        events.append(ev('fin', 1))
        events.append(ev('file', 0, '', data))
        return events, data
    fins = list(fins)
    # what the writer is handed: a plain buffer, a buffer that reports len() == 0, a file positioned behind a header
    # the caller wrote first (transport header, append mode), or an output that cannot be rewound
    kind = pick(8, 'wfile', [len(r) for r in recs[:6]], blocked, fins, api) if fileobj is None and not THREADED and api == 'class' else 0
    header = b''
    if fileobj is not None:
        f = fileobj
    elif kind == 3:
        f = new_file(kind='sized')
    elif kind == 5 and 'exit' not in fins:
        f = new_file()
        header = HEADERS[pick(3, 'whdr', len(recs))]
        f.write(header)
    elif kind == 6 and fins == ['close']:
        f = new_file(kind='pipe')
    else:
        f = new_file()
    events, data = _vbs_write_history(f, recs, blocked, fins, api, peek, events, isinstance(f, PipeLike))
    if header and data[:len(header)] == header:
        data = data[len(header):]
        events[-1] = ev('file', 0, '', data)
    return events, data


def _vbs_write_history(f, recs, blocked, fins, api, peek, events, pipe):
    if api == 'mixed':
        # the convenience method and the plain method mixed on one writer
        w = mciipm.VbsWriter(f, blocked=blocked)
        k = len(recs) // 2

        def reused(rs):
            buf = bytearray()            # every record is handed over in the same buffer, refilled for the next one
            for x in rs:
                buf[:] = x
                yield buf
            buf[:] = b'\xee' * len(buf)
        w.write_many(recs[:k] if len(recs) % 2 else reused(recs[:k]))
        for r in recs[k:k + 1]:
            yield_point()
            w.write(r)
        w.write_many(iter(recs[k + 1:]) if len(recs) % 3 else reused(recs[k + 1:]))
        w.close()
        events.append(ev('fin', 1))
        f.seek(0)
        data = f.read()
        events.append(ev('file', 0, '', data))
        return events, data
    if api == 'class2':
        # second realisation of the same history: the records are written outside any with-block, every
        # context-manager exit is a real `with writer: pass` (entered after whatever happened before)
        w = mciipm.VbsWriter(f, blocked)            # the flag passed by position
        captured = w.close                          # a bound method taken before anything was finalised (atexit / ExitStack style)
        for r in recs:
            yield_point()
            w.write(r)
        for i, x in enumerate(fins):
            if RELOAD and i == 1:
                # the application re-loads the module between two finalisations (hot reload of a long-running service,
                # an interactive session): the writer object lives on, its file is finalised already
                import importlib
                importlib.reload(mciipm)
            if x == 'exit':
                with w:
                    pass
            elif i % 3 == 1:
                captured()
            elif i % 3 == 2:
                type(w).close(w)
            else:
                w.close()
            if peek and f.readable():
                f.read(peek)             # a consumer looks at the finished file before the next finalisation
        for x in fins:
            events.append(ev('fin', 1 if x == 'close' else 2))
        if f.readable():
            f.seek(0)
            data = f.read()
        else:
            f.flush()
            with open(f.name, 'rb') as fh:
                data = fh.read()
        events.append(ev('file', 0, '', data))
        return events, data
    if 'exit' in fins:
        k = fins.index('exit')
        # every third history leaves the with-block through an exception raised by the caller's own code after the
        # last write (the caller catches it outside): leaving is leaving
        by_exception = (len(recs) + sum(len(x) for x in recs[:3]) + k) % 3
        try:
            with mciipm.VbsWriter(f, blocked=blocked) as w:
                for r in recs:
                    yield_point()
                    w.write(r)
                for _ in fins[:k]:
                    w.close()
                if by_exception == 1:
                    raise _Leave()
                if by_exception == 2 and (len(recs) + k) % 2:
                    raise _LeaveBase()       # the way sys.exit(), Ctrl-C or a closed generator leave a with-block
        except (_Leave, _LeaveBase):
            pass
        after = fins[k + 1:]
    else:
        w = mciipm.VbsWriter(f, blocked=blocked)
        scrub = (len(recs) + len(fins)) % 2 == 0
        for r in recs:
            if scrub:
                buf = bytearray(r)          # a mutable record that the caller wipes as soon as write() has returned
                w.write(buf)
                buf[:] = b'\xee' * len(buf)
            else:
                yield_point()
                w.write(r)
        after = fins
    for x in after:
        if x == 'exit':
            w.__exit__(None, None, None)
        elif pipe:
            try:
                w.close()            # finalises; the rewind of a pipe fails afterwards - the bytes are what counts
            except (OSError, io.UnsupportedOperation):
                pass
        else:
            w.close()
    for x in fins:
        events.append(ev('fin', 1 if x == 'close' else 2))
    if pipe:
        data = f.getvalue()
        events.append(ev('file', 0, '', data))
        return events, data
    if (len(recs) + len(fins)) % 3 == 1 and f.readable():
        # the finished file is looked at (position off any boundary) and the writer object goes away before it is read
        import gc
        f.seek(0)
        f.read(5)
        del w
        gc.collect()
    f.seek(0)
    data = f.read()
    events.append(ev('file', 0, '', data))
    return events, data


def read_events(data, blocked, make_reader=None, limit=100000, project=None, fileobj=None):
    """Iterate a real reader over `data` until it stops or raises; one 'next' event per call."""
    with Env('rd', len(data), blocked, data[-2:]):
        return _read_events(data, blocked, make_reader, limit, project, fileobj)


def _read_events(data, blocked, make_reader, limit, project, fileobj):
    # what the reader is handed: a plain buffer; a stream that cannot seek or tell (pipe, socket, piped stdin); a file
    # positioned behind a header the caller has already consumed; a gzip file object (its fileno() is the COMPRESSED file)
    k90 = pick(90, 'rfile', len(data), blocked, bytes(data[:4])) if fileobj is None and not THREADED else 0
    kind = 5 if k90 == 5 else (k90 % 9 if k90 % 9 in (2, 7) else 0)
    gz = None
    if kind == 5:
        import gzip
        import tempfile
        fd, gz = tempfile.mkstemp(prefix='rd-', suffix='.gz', dir=os.path.join(os.path.dirname(os.path.dirname(os.path.abspath(__file__))), '.work'))
        os.close(fd)
        with gzip.open(gz, 'wb') as zf:
            zf.write(data)
        fileobj = gzip.open(gz, 'rb')
    elif kind == 2:
        fileobj = new_file(data, kind='pipe')
    elif kind == 7:
        hdr = HEADERS[pick(3, 'rhdr', len(data))]
        fileobj = io.BytesIO(hdr + data)
        fileobj.seek(len(hdr))
    try:
        return _read_events_on(data, blocked, make_reader, limit, project, fileobj, plain=kind == 0)
    finally:
        if gz:
            fileobj.close()
            os.unlink(gz)


def _read_events_on(data, blocked, make_reader, limit, project, fileobj, plain):
    import zlib
    f = fileobj if fileobj is not None else new_file(data)
    events = []
    try:
        with Watchdog(5.0):
            rd = make_reader(f) if make_reader else mciipm.VbsReader(f, blocked=blocked)
    except BaseException as ex:  # noqa
        o = exc_outcome(ex)
        events.append(_err_event(o))
        return events, [o]
    raw = []
    # how the reader is consumed: 0 next() calls; 1 next() for the first record, then a for loop; 2 a for loop left
    # with break after the first record and continued by a second for loop; 3 one for loop
    style = zlib.crc32(repr(('style', len(data), blocked, data[:5])).encode()) % 5 if project is None and make_reader is None else 0
    state = {'n': 0}

    def one_next():
        try:
            with Watchdog(5.0):
                yield_point()
                rec = next(rd)
        except StopIteration:
            events.append(ev('next', 0, 'stop'))
            return False
        except BaseException as ex:  # noqa
            o = exc_outcome(ex)
            raw.append(o)
            events.append(_err_event(o))
            return False
        raw.append(rec)
        events.append(ev('next', 0, 'rec', rec) if project is None else project(rec))
        state['n'] += 1
        return True

    def loop(stop_after=None):
        k = 0
        try:
            with Watchdog(20.0):
                for rec in rd:
                    raw.append(rec)
                    events.append(ev('next', 0, 'rec', rec))
                    state['n'] += 1
                    k += 1
                    if state['n'] >= limit or (stop_after and k >= stop_after):
                        return True
        except BaseException as ex:  # noqa
            o = exc_outcome(ex)
            raw.append(o)
            events.append(_err_event(o))
            return False
        events.append(ev('next', 0, 'stop'))
        return False

    def consume():
        if style in (0, 4):
            while state['n'] < limit and one_next():
                pass
        elif style == 1:
            if one_next():
                loop()
        elif style == 2:
            if loop(stop_after=1):
                loop()
        else:
            loop()
    consume()
    if style == 4 and not blocked and fileobj is None and plain and state['n'] < limit:
        # the same reader, rewound with its seek() (forwarded to the file), is read a second time
        try:
            rd.seek(0)
        except BaseException as ex:  # noqa
            return events, raw
        events.append(ev('rewind'))
        consume()
    return events, raw


def _err_event(o):
    if o['kind'] == 'liberr':
        rn = o.get('record_number')
        e = ev('next', rn if isinstance(rn, int) else -1, 'liberr', bytes(o['context'] or b''))
    else:
        e = ev('next', -1, o['kind'])
    e['_observed'] = o
    return e


# ------------------------------------------------------------------ unrelated library activity between judged calls

def hazard(r):
    """Perform a little unrelated (and partly refused) library activity in this process.  Nothing here is judged; the
    point is that the JUDGED calls which follow must not be influenced by it (module-level / class-level state, caches
    keyed too coarsely, half-finished operations).  Every exception is swallowed."""
    import copy
    import decimal
    from cardutil import iso8583, card, key as keymod, pinblock, config as cfgmod
    pkg = cfgmod.config['bit_config']
    pick = r.randrange(12)
    try:
        with Watchdog(3.0):
            _hazard(pick, pkg, copy, decimal, iso8583, card, keymod, pinblock)
    except BaseException:  # noqa
        pass


def _hazard(pick, pkg, copy, decimal, iso8583, card, keymod, pinblock):
    if True:
        if pick == 0:       # a dumps that is refused part-way
            iso8583.dumps({'MTI': '1240', 'DE2': '12', 'DE3': 'abcdef', 'DE33': 'x' * 500, 'DE4': 5})
        elif pick == 1:     # a loads that is refused part-way (several elements flagged, garbage inside)
            iso8583.loads(b'1240' + bytes([0xf0, 0x10, 0, 1, 0, 0, 0, 0]) + bytes(8) + b'161234567890123456123456zzzz')
        elif pick == 2:     # another configuration with the same element numbers
            bc = copy.deepcopy(pkg)
            bc['48'].pop('field_processor', None)
            bc['2']['field_processor'] = 'PAN'
            b = iso8583.dumps({'MTI': '1240', 'DE2': '4444333322221111', 'DE48': 'plain text'}, iso_config=bc)
            iso8583.loads(b, iso_config=bc)
        elif pick == 3:     # a blocked writer that is abandoned without being finalised
            w = mciipm.VbsWriter(io.BytesIO(), blocked=True)
            w.write(b'abandoned' * 30)
        elif pick == 4:     # a reader that is abandoned after one record, another that ends in an error
            data = mciipm.vbs_list_to_bytes([b'one', b'two', b'three'])
            rd = mciipm.VbsReader(io.BytesIO(data))
            next(rd)
            list(mciipm.VbsReader(io.BytesIO(data[:9])))
        elif pick == 5:     # refused card-number input
            card.calculate_check_digit('4111 1111\u00b9 1111 111')
        elif pick == 6:
            card.validate_check_digit('79927398713')
            card.validate_check_digit('79927398710')
        elif pick == 7:     # refused key components / PIN
            keymod.get_zone_master_key('00' * 16, 'zz' * 16)
        elif pick == 8:
            pinblock.calculate_pvv('12x4', '00' * 16, 1, '4000123456789010')
        elif pick == 9:     # decimal element written and read under a caller-supplied configuration
            bc = copy.deepcopy(pkg)
            bc['5']['field_python_type'] = 'decimal'
            b = iso8583.dumps({'MTI': '1240', 'DE5': decimal.Decimal('12.50')}, iso_config=bc)
            iso8583.loads(b, iso_config=bc)
        elif pick == 10:    # inspection of something that is not an IPM file
            mciipm.ipm_info(io.BytesIO(b'\x00\x00\x00\x10' + b'abcd' + bytes([0x82]) + bytes(40)))
        else:               # a parameter reader that is refused
            mciipm.IpmParamReader(io.BytesIO(mciipm.vbs_list_to_bytes([b'no trailer here'])), 'IP0040T1')
