------------------------------ MODULE Blocker ------------------------------
(* Block1014 streaming blocker: implementation-shaped machine with the abstract variable `data`. *)
EXTENDS Blocks

(***************************************************************************)
(* Blocker, implementation-shaped, with the abstract variable `data`.      *)
(***************************************************************************)
VARIABLES data,    \* abstract: every cell written so far, in order
          rem,     \* impl: free payload cells in the current block (0..P)
          file,    \* cells emitted to the wrapped file so far
          final,   \* has a finalisation happened
          nw       \* number of writes so far (history bound only)
bvars == <<data, rem, file, final, nw>>

BInit == data = <<>> /\ rem = P /\ file = <<>> /\ final = FALSE /\ nw = 0

\* Block1014.write: the emitted cells and the new counter are EmitWrite (Blocks.tla), one clause per branch
WriteFits(w) ==
    /\ Len(w) < rem
    /\ file' = file \o EmitWrite(rem, w).out
    /\ rem' = EmitWrite(rem, w).rem

WriteCompletes(w) ==
    /\ Len(w) >= rem
    /\ file' = file \o EmitWrite(rem, w).out
    /\ rem' = EmitWrite(rem, w).rem

BWrite(w) ==
    /\ ~final
    /\ WriteFits(w) \/ WriteCompletes(w)
    /\ data' = data \o w
    /\ nw' = nw + 1
    /\ UNCHANGED final

BFinalise ==
    /\ ~final
    /\ file' = file \o EmitFinal(rem).out
    /\ rem' = EmitFinal(rem).rem
    /\ final' = TRUE
    /\ UNCHANGED <<data, nw>>

\* ---- properties of the blocker
NoLossInv ==      \* no cell dropped, duplicated or moved, at every step
    LET pay == Payload(file) IN
        /\ Len(pay) >= Len(data) \/ ~final
        /\ SubSeq(pay, 1, Lo(Len(pay), Len(data))) = SubSeq(data, 1, Lo(Len(pay), Len(data)))
        /\ ~final => Len(pay) = Len(data)
FinalInv == final => file \in Finals(data)
OneShotInv == final => Blocks(data, MinBlocks(data)) \in Finals(data)
RemInv == rem \in 0..P

\* integer skeleton of a blocker state (the step function IntWrite/IntFinal is in Blocks.tla)
Skel == [d |-> Len(data), rem |-> rem, flen |-> Len(file)]
\* the cell-level machine is simulated step by step by the integer skeleton
SkelRefines == [][ \/ (\E n \in 0..(4 * P) : Skel' = IntWrite(Skel, n))
                   \/ Skel' = IntFinal(Skel) ]_bvars

=============================================================================
