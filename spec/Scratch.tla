------------------------------- MODULE Scratch -------------------------------
(***************************************************************************)
(* Why "each thread on its own objects" is a dimension of every check.      *)
(*                                                                         *)
(* Design-level model of a library routine that moves a unit of data        *)
(* through a work area in two steps - Fill (the data are put into the area) *)
(* and Use (the area is handed on: copied into the caller's result, passed  *)
(* to write()) - with a point between the two steps where another thread    *)
(* may run (a blocking transfer, a Python-level file object, a byte-code    *)
(* boundary).  Threads work on DISJOINT objects: thread t moves its own     *)
(* items Items[t] into its own result.                                      *)
(*                                                                         *)
(*   Shared = FALSE : every call has its own work area (the unchanged       *)
(*                    library: locals, bytes objects built per call).       *)
(*   Shared = TRUE  : one module-level work area serves all calls (the      *)
(*                    "allocation saving" refactoring: a scratch bytearray, *)
(*                    a reused list, a module-level BitArray).              *)
(*                                                                         *)
(* Isolation: whatever the schedule, the result of every thread is a prefix *)
(* of its own items.  TLC proves it for Shared = FALSE and produces the     *)
(* three-step counterexample (Fill a, Fill b, Use a) for Shared = TRUE.     *)
(* A single thread never sees a difference: SingleThreadEquivalence.        *)
(* The conformance side is isocheck.threaded(): the real drivers run from   *)
(* four threads at once over files that yield around every transfer, and    *)
(* each thread's recorded history must be accepted by the same Trace_*      *)
(* specification that judges it when it runs alone.                         *)
(***************************************************************************)
EXTENDS Integers, Sequences, TLC
CONSTANTS Threads,     \* e.g. {1, 2}
          Items,       \* Items[t]: the sequence of units thread t moves (distinct across threads)
          Shared       \* BOOLEAN
VARIABLES area,        \* work areas: area[t] (private) or area[0] (shared); "empty" when unused
          pc,          \* pc[t] \in {"fill", "use", "done"}
          k,           \* k[t]: index of the unit thread t is moving
          result       \* result[t]: what thread t has produced so far
vars == <<area, pc, k, result>>
Slot(t) == IF Shared THEN 0 ELSE t
Init == /\ area = [s \in Threads \cup {0} |-> "empty"]
        /\ pc = [t \in Threads |-> IF Len(Items[t]) = 0 THEN "done" ELSE "fill"]
        /\ k = [t \in Threads |-> 1]
        /\ result = [t \in Threads |-> <<>>]
Fill(t) == /\ pc[t] = "fill"
           /\ area' = [area EXCEPT ![Slot(t)] = Items[t][k[t]]]
           /\ pc' = [pc EXCEPT ![t] = "use"]
           /\ UNCHANGED <<k, result>>
Use(t) == /\ pc[t] = "use"
          /\ result' = [result EXCEPT ![t] = Append(@, area[Slot(t)])]
          /\ k' = [k EXCEPT ![t] = @ + 1]
          /\ pc' = [pc EXCEPT ![t] = IF k[t] = Len(Items[t]) THEN "done" ELSE "fill"]
          /\ UNCHANGED area
Next == \E t \in Threads : Fill(t) \/ Use(t)
Spec == Init /\ [][Next]_vars /\ \A t \in Threads : WF_vars(Fill(t) \/ Use(t))

IsPrefix(a, b) == Len(a) <= Len(b) /\ SubSeq(b, 1, Len(a)) = a
Isolation == \A t \in Threads : IsPrefix(result[t], Items[t])
Finishes == <>(\A t \in Threads : pc[t] = "done" /\ result[t] = Items[t])
=============================================================================
