CONSTANTS P = 1012  T = 2  PAD = 64
SPECIFICATION TSpec
POSTCONDITION AllAccepted
CHECK_DEADLOCK FALSE
