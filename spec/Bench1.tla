---- MODULE Bench1 ----
EXTENDS Iso8583
VARIABLE x
Init == x = 0
Next == x < 2000 /\ x' = x + 1
M == FoldLeft(LAMBDA acc, e : Put(acc, e.k, e.v), EmptyD, Traces[1].m)
Inv == Layout(M, x % 2 = 0).k = "ok"
Inv2 == Reading(Traces[1].bytes, FALSE).st = "strict"
Inv3 == WellFormed(M)
Inv4 == PresentBits(M) # {}
Inv5 == WithCarriers(M).ok
====
