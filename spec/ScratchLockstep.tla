--------------------------- MODULE ScratchLockstep ---------------------------
(***************************************************************************)
(* Round 9: "two objects alive at the same time and used alternately" needs *)
(* no thread scheduler at all.  The same two-step routine as Scratch.tla,   *)
(* driven by ONE caller that owns two objects (two writers, two readers,    *)
(* two blockers) and takes exactly one step of each in turn - zip() over    *)
(* two readers, one input copied to two outputs.  The schedule is fixed:    *)
(* there is exactly one behaviour.                                          *)
(*                                                                         *)
(*   Shared = FALSE : the single behaviour satisfies Isolation and ends     *)
(*                    with every object's result equal to its own items.    *)
(*   Shared = TRUE  : the single behaviour violates Isolation in its third  *)
(*                    step (Fill(1), Fill(2), Use(1)) - the state is        *)
(*                    class-level or module-level and belongs to no object. *)
(*                                                                         *)
(* Because the behaviour is unique, the harness can realise it exactly:     *)
(* drv.Baton hands the turn from one history to the other at every          *)
(* operation and around every file transfer (isocheck.lockstep).  A         *)
(* free-running thread schedule reaches the same state only by chance.      *)
(***************************************************************************)
EXTENDS Scratch
VARIABLE turn
lvars == <<vars, turn>>
Other(t) == CHOOSE u \in Threads : u # t
Active(t) == pc[t] # "done"
LInit == Init /\ turn = 1
LStep(t) == /\ turn = t
            /\ Fill(t) \/ Use(t)
            /\ turn' = IF pc'[Other(t)] # "done" THEN Other(t) ELSE t
LNext == \E t \in Threads : LStep(t)
LSpec == LInit /\ [][LNext]_lvars /\ WF_lvars(LNext)
\* the schedule is deterministic: no state has two successors
AllDone == \A t \in Threads : pc[t] = "done" /\ result[t] = Items[t]
LFinishes == <>AllDone
=============================================================================
