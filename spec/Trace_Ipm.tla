----------------------------- MODULE Trace_Ipm -----------------------------
(***************************************************************************)
(* IPM files: IpmWriter = Iso8583.Layout ; Vbs.Write  and                  *)
(*            IpmReader = Vbs.Next ; Iso8583.Reading, with error wrapping. *)
(* Trace validation of recorded executions of several reader / writer      *)
(* instances used at the same time (each event names its instance; every   *)
(* instance is judged against its own specification state, so any          *)
(* influence of one instance on another shows up as a rejected event).     *)
(*                                                                         *)
(* batch.consts = [cfg, dec]; trace = [tid, loc, insts, events]            *)
(*   insts  = Seq of [blk]  (instance i is blocked or not)                 *)
(*   event  = [inst, op, m, bytes, out, n, d]                              *)
(*     "write": IpmWriter.write(m)          (m = message entries, well-formed)                 *)
(*     "fin"  : a finalisation;  "file": bytes = content of the wrapped file                   *)
(*     "given": bytes = file content handed to a reader;  "cut": n = keep first n bytes         *)
(*     "next" : one __next__ of IpmReader: out = "rec" (d = dict entries) | "stop"              *)
(*              | "liberr" (n = record_number or -1, bytes = binary_context_data) | "exc" | "hang" *)
(*     "csvrow": d = the non-empty cells of one CSV data row written by an extraction tool;     *)
(*               "csvend": the CSV has no more rows.  cols = the configured output columns.     *)
(*     "tool"  : a command-line tool run on the file: out = "returned" | "exc" | "hang"         *)
(* loc = TRUE: record number and context bytes of a library error are judged (C10).            *)
(***************************************************************************)
EXTENDS Iso8583, Vbs
VARIABLES tid, l, st, bad
tvars == <<tid, l, st, bad>>

Tr == Traces[tid]
Ev == Tr.events[l]
ToDict(es) == FoldLeft(LAMBDA acc, e : Put(acc, e.k, e.v), EmptyD, es)
I0 == [wrecs |-> <<>>, nfin |-> 0, orig |-> <<>>, cur |-> <<>>, rpos |-> 0, ryield |-> 0]
Fresh(t) == [i \in 1..Len(Traces[t].insts) |-> I0]
TInit == tid = 1 /\ l = 1 /\ bad = FALSE /\ st = (IF NTr >= 1 THEN Fresh(1) ELSE <<>>) /\ RegInit
EndOfTrace == /\ tid <= NTr /\ l > Len(Tr.events) /\ (IF bad THEN EndRejected ELSE Accept)
              /\ tid' = tid + 1 /\ l' = 1 /\ bad' = FALSE
              /\ st' = IF tid + 1 <= NTr THEN Fresh(tid + 1) ELSE <<>>

\* new instance state and verdict ("" = admissible) for one event
Judge(s, blk, e) ==
    CASE e.op = "write" ->
            LET L == Layout(ToDict(e.m), FALSE)
            IN  IF L.k # "ok" THEN [s |-> s, v |-> "driver-wrote-a-message-outside-the-layout"]
                ELSE [s |-> [s EXCEPT !.wrecs = Append(s.wrecs, L.b)], v |-> ""]
      [] e.op = "fin" -> [s |-> [s EXCEPT !.nfin = s.nfin + 1], v |-> ""]
      [] e.op = "file" ->
            IF s.nfin > 0 /\ ~(e.bytes \in WriterFiles(blk, s.wrecs))
            THEN [s |-> s, v |-> "file-not-the-writer-file-of-the-encoded-messages"]
            ELSE [s |-> [s EXCEPT !.cur = e.bytes, !.orig = e.bytes, !.rpos = 0, !.ryield = 0], v |-> ""]
      [] e.op = "given" -> [s |-> [s EXCEPT !.cur = e.bytes, !.orig = e.bytes, !.rpos = 0, !.ryield = 0], v |-> ""]
      [] e.op = "cut" -> [s |-> [s EXCEPT !.cur = SubSeq(s.orig, 1, e.n), !.rpos = 0, !.ryield = 0], v |-> ""]
      [] e.op = "next" ->
            LET stream == StreamOf(blk, s.cur)
                a == ReadAt(stream, s.rpos)
                \* ryield counts the records CONSUMED: delivered, or refused at message level by a reader whose caller catches the
                \* error and keeps reading - the next error carries its own position in the file (round 10)
                adv == [s EXCEPT !.rpos = a.next, !.ryield = IF e.out = "rec" \/ (a.k = "record" /\ e.out = "liberr") THEN s.ryield + 1 ELSE s.ryield]
                locv == IF e.out = "liberr" /\ Tr.loc
                        THEN (IF e.n # s.ryield + 1 THEN "error-record-number"
                              ELSE IF a.k = "record" /\ e.bytes # a.pfx \o a.rec THEN "error-context-not-the-raw-record"
                              ELSE IF a.k # "record" /\ ~CtxOk(stream, s.rpos, e.bytes) THEN "error-context-bytes"
                              ELSE "")
                        ELSE ""
            IN  IF e.out \in {"exc", "hang"} THEN [s |-> s, v |-> "outcome-class-" \o e.out]
                ELSE IF a.k # "record"
                THEN IF ~(e.out \in NextKinds(stream, s.rpos, Tr.strict))
                     THEN [s |-> s, v |-> "next-outcome-" \o e.out \o "-at-" \o a.k]
                     ELSE [s |-> adv, v |-> locv]
                ELSE LET r == Reading(a.rec, FALSE) IN
                     IF e.out = "stop" THEN [s |-> s, v |-> "stopped-before-a-complete-record"]
                     ELSE IF e.out = "rec"
                     THEN IF r.st = "bad" THEN [s |-> adv, v |-> "accepted-a-must-reject"]
                          ELSE IF ~Agrees(ToDict(e.d), r) THEN [s |-> adv, v |-> "record-dict-differs"]
                          ELSE [s |-> adv, v |-> ""]
                     ELSE IF r.st = "strict" THEN [s |-> adv, v |-> "rejected-a-must-accept"]
                          ELSE [s |-> adv, v |-> locv]
      [] e.op = "csvrow" ->
            \* one data row of the CSV written by mci_ipm_to_csv / mideu extract for the next record of the file:
            \* exactly the configured output columns (Tr.cols) that the record's strict reading carries
            LET stream == StreamOf(blk, s.cur)
                a == ReadAt(stream, s.rpos)
                adv == [s EXCEPT !.rpos = a.next, !.ryield = s.ryield + 1]
            IN  IF a.k # "record" THEN [s |-> s, v |-> "csv-row-without-a-record"]
                ELSE LET r == Reading(a.rec, FALSE) IN
                     IF r.st # "strict" THEN [s |-> adv, v |-> ""]
                     ELSE IF CsvCells(r.d, Tr.cols) = ToDict(e.d) THEN [s |-> adv, v |-> ""]
                     ELSE [s |-> adv, v |-> "csv-row-differs-from-the-reading-of-its-record"]
      [] e.op = "csvend" ->
            LET a == ReadAt(StreamOf(blk, s.cur), s.rpos)
            IN  IF a.k = "record" THEN [s |-> s, v |-> "csv-ended-before-the-last-record"] ELSE [s |-> s, v |-> ""]
      [] e.op = "tool" ->
            \* a command-line tool was run on the current file: it catches the library error and must always return
            \* (with a diagnostic) - a traceback or a hang is in no outcome set (C07)
            [s |-> s, v |-> IF e.out = "returned" THEN "" ELSE "tool-did-not-return-" \o e.out]
      [] OTHER -> [s |-> s, v |-> "unknown-op"]

Step == /\ tid <= NTr /\ l <= Len(Tr.events)
        /\ \E j \in {Judge(st[Ev.inst], Tr.insts[Ev.inst].blk, Ev)} :
             /\ (IF j.v # "" THEN RejectCont(Tr.tid, l, j.v) ELSE TRUE)
             /\ bad' = (bad \/ j.v # "")
             /\ st' = [st EXCEPT ![Ev.inst] = j.s]
        /\ l' = l + 1 /\ tid' = tid
TNext == EndOfTrace \/ Step
TSpec == TInit /\ [][TNext]_tvars
=============================================================================
