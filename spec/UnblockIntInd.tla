--------------------------- MODULE UnblockIntInd ---------------------------
(* Inductive invariant of the streaming unblocker (Unblock1014.read) at real size, shaped like the implementation:
   one call is Call, then Refill steps (one 1014-byte read of the wrapped file each, 1012 bytes kept) while the buffer
   holds no more than the request and the file is not exhausted, then Return.  Lengths only.  The file length, the
   number of calls and every request size range over ALL naturals - discharged by Apalache (typed), C05:
       Init => IndInv                         (apalache-mc check --init=Init --inv=IndInv --length=0)
       IndInv /\ Next => IndInv'              (apalache-mc check --init=IndInit --inv=IndInv --length=1)
   IndInv contains the statement of C05 for the call that returned last (RetOk): it delivered exactly the requested
   number of payload bytes, or all that remained (and everything that remained for a request without size).
   UnblockInt.tla (TLC, P = 1012) enumerates the same function Take at real size and replays it on the real class. *)
EXTENDS Integers
PP == 1012
BB == 1014
VARIABLES
  \* @type: Int;
  flen,       \* length of the blocked input (any natural: whole blocks or cut anywhere)
  \* @type: Int;
  fpos,       \* position of the wrapped file
  \* @type: Int;
  buf,        \* bytes held in the buffer
  \* @type: Int;
  given,      \* payload bytes handed out so far
  \* @type: Str;
  pc,
  \* @type: Int;
  req,        \* size of the call in progress / returned last (0 = no size given)
  \* @type: Int;
  owed,       \* payload that remained when that call started
  \* @type: Int;
  ret         \* what it returned

\* payload bytes in the first x bytes of a blocked file
\* @type: Int => Int;
Pay(x) == (x \div BB) * PP + (IF x % BB <= PP THEN x % BB ELSE PP)

Init == /\ flen \in Nat /\ fpos = 0 /\ buf = 0 /\ given = 0
        /\ pc = "idle" /\ req = 0 /\ owed = 0 /\ ret = 0

Call == /\ pc = "idle"
        /\ \E n \in Nat : req' = n
        /\ owed' = Pay(flen) - given
        /\ pc' = "fill"
        /\ UNCHANGED <<flen, fpos, buf, given, ret>>

MoreWanted == (req = 0 \/ buf <= req) /\ fpos < flen

Refill == /\ pc = "fill" /\ MoreWanted
          /\ LET c == IF flen - fpos < BB THEN flen - fpos ELSE BB
             IN  /\ fpos' = fpos + c
                 /\ buf' = buf + (IF c <= PP THEN c ELSE PP)
          /\ UNCHANGED <<flen, given, pc, req, owed, ret>>

Return == /\ pc = "fill" /\ ~MoreWanted
          /\ LET r == IF req = 0 THEN buf ELSE IF req < buf THEN req ELSE buf
             IN  /\ ret' = r /\ buf' = buf - r /\ given' = given + r
          /\ pc' = "idle"
          /\ UNCHANGED <<flen, fpos, req, owed>>

Next == Call \/ Refill \/ Return

\* C05 for the call that returned last
RetOk == ret = (IF req = 0 THEN owed ELSE IF req < owed THEN req ELSE owed)

IndInv == /\ flen >= 0 /\ fpos >= 0 /\ fpos <= flen /\ buf >= 0 /\ given >= 0 /\ req >= 0 /\ owed >= 0 /\ ret >= 0
          /\ pc \in {"idle", "fill"}
          /\ (fpos % BB = 0 \/ fpos = flen)             \* the wrapped file is read block by block
          /\ given + buf = Pay(fpos)                    \* nothing lost, nothing invented, trailers dropped
          /\ (pc = "fill" => owed = Pay(flen) - given)
          /\ (pc = "idle" => RetOk)

IndInit == /\ flen \in Int /\ fpos \in Int /\ buf \in Int /\ given \in Int /\ req \in Int /\ owed \in Int /\ ret \in Int
           /\ pc \in {"idle", "fill"}
           /\ IndInv
=============================================================================
