CONSTANTS Threads = {1, 2, 3}  Shared = TRUE
CONSTANT Items <- MCItems
SPECIFICATION Spec
INVARIANT Isolation
CHECK_DEADLOCK FALSE
