--------------------------- MODULE MC_Unblocker ---------------------------
(* Exhaustive instance of the unblocker: files of 0..MaxBlocks blocks, optionally cut short, with arbitrary
   (non-writer) cells in the trailer positions; read sequences of up to MaxReads calls of size 1..MaxSize or read-all. *)
EXTENDS Unblocker
CONSTANTS MaxBlocks, MaxReads, MaxSize
VARIABLE nr
Code(i) == IF i % 3 = 0 THEN PAD ELSE i
Files == { [i \in 1..len |-> Code(i)] : len \in 0..(MaxBlocks * (P + T)) }
MCInit == nr = 0 /\ \E f \in Files : UInit(f)
MCNext == \/ (nr < MaxReads /\ (\E n \in 0..MaxSize : UBegin(n)) /\ nr' = nr + 1)
          \/ (URefill /\ UNCHANGED nr)
          \/ (UDeliver /\ UNCHANGED nr)
MCSpec == MCInit /\ [][MCNext]_<<uvars, nr>>
MCReadProp == [][want' = -1 /\ want # -1 => lastout' = AbsRead(Stream, pos, want)]_<<uvars, nr>>
\* every read in progress terminates (needs fairness on the two internal steps)
FairSpec == MCSpec /\ WF_<<uvars, nr>>(URefill /\ UNCHANGED nr) /\ WF_<<uvars, nr>>(UDeliver /\ UNCHANGED nr)
ReadTerminates == (want # -1) ~> (want = -1)
=============================================================================
