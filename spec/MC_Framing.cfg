CONSTANT MaxData = 6
SPECIFICATION Spec
INVARIANT PtrInv
INVARIANT TileInv
INVARIANT OwnBytesInv
INVARIANT DoneAgrees
PROPERTY Terminates
CHECK_DEADLOCK FALSE
