----------------------------- MODULE BlockInt -----------------------------
(* The integer skeleton of the streaming blocker at real size: every first write a \in AS (reaching every
   residue, in the "trailer pending", "trailer written", "short prefix" and "block-spanning prefix" situations)
   crossed with every next write length 0..NMax, then finalisation.  Each two-write behaviour is printed as
   <<"T", a, n, rem after, blocks after finalise>> and replayed on the real Block1014 by the harness. *)
EXTENDS Blocks
CONSTANTS AS, NMax,
          NBig      \* further next-write lengths (single writes of a megabyte and more)
VARIABLES s, hist
Init == s = [d |-> 0, rem |-> P, flen |-> 0] /\ hist = <<>>
\* the first write either as one call (c = 0) or as two calls of a \div 2 and the rest (c = 1)
First == hist = <<>> /\ \E a \in AS, c \in {0, 1} :
            /\ s' = IF c = 0 THEN IntWrite(s, a) ELSE IntWrite(IntWrite(s, a \div 2), a - a \div 2)
            /\ hist' = <<a, c>>
Second == /\ Len(hist) = 2
          /\ \E n \in (0..NMax) \cup NBig :
                /\ s' = IntWrite(s, n)
                /\ hist' = <<hist[1], hist[2], n>>
                /\ PrintT(<<"T", hist[1], hist[2], n, s'.rem, IntBlocks(s')>>)
Next == First \/ Second
Spec == Init /\ [][Next]_<<s, hist>>
\* the typed transcription of the step function used for the Apalache inductive proof (BlockIntInd.tla, PP = 1012)
\* is the same function: checked on every behaviour enumerated here (meaningful when P = 1012, T = 2)
A == INSTANCE BlockIntInd WITH data <- s.d, rem <- s.rem, flen <- s.flen
ApaAgrees ==
    LET w0 == <<0, P, 0>>
        step(w, n) == A!ApaWrite(w[1], w[2], w[3], n)
        w1 == IF Len(hist) >= 2
              THEN (IF hist[2] = 0 THEN step(w0, hist[1]) ELSE step(step(w0, hist[1] \div 2), hist[1] - hist[1] \div 2))
              ELSE w0
        w2 == IF Len(hist) = 3 THEN step(w1, hist[3]) ELSE w1
    IN  <<s.d, s.rem, s.flen>> = w2
\* design-level properties of the skeleton, at real size
RemRange == s.rem \in 0..P
\* the file holds whole blocks plus the open block; its payload length is d
FileLen == s.flen = IF s.rem = 0 THEN (s.d \div P) * (P + T) - T
                    ELSE ((s.d + s.rem) \div P - 1) * (P + T) + (P - s.rem)
FinalBlocks == IntBlocks(s) \in { CeilDiv(s.d, P), CeilDiv(s.d, P) + 1 }
FinalWhole == IntFinal(s).flen % (P + T) = 0
=============================================================================
