---------------------------- MODULE Trace_Block ----------------------------
(* Trace validation of recorded executions of Block1014 / block_1014 / Unblock1014 / unblock_1014 with concrete
   bytes at real size (P = 1012).  One TLC state per recorded event.

   trace = [tid, kind, file, events]; event = [op, n, bytes]
     kind "blocker"  : op "write" (bytes = argument), op "final" (bytes = wrapped file after finalise/seek/close),
                       op "oneshot" (bytes = output of block_1014 on the same data)
     kind "unblocker": file = blocked input; op "read" (n = size, 0 = no size; bytes = returned)
     kind "unblock"  : file = input of unblock_1014; op "ok" (bytes = output) | "liberr" | "exc"
   Verdicts are on observables only: the blocker's own variables rem/file are driven by the implementation-shaped
   actions, but acceptance is `observed \in Finals(data)`; a difference between the observed file and the
   implementation-shaped `file` is reported as a NOTE (spec drift), not as a rejection. *)
EXTENDS TraceBatch, Blocker
VARIABLES tid, l, pos
tvars == <<tid, l, pos, bvars>>

Tr == Traces[tid]
Ev == Tr.events[l]
Reset == BInit /\ pos' = 0 /\ l' = 1
\* leave the current trace (accepted or rejected) and start the next one
NextTrace == tid' = tid + 1 /\ l' = 1 /\ pos' = 0
             /\ data' = <<>> /\ rem' = P /\ file' = <<>> /\ final' = FALSE /\ nw' = 0

TInit == tid = 1 /\ l = 1 /\ pos = 0 /\ BInit /\ RegInit

EndOfTrace == tid <= NTr /\ l > Len(Tr.events) /\ Accept /\ NextTrace

BlockerWrite == /\ Tr.kind = "blocker" /\ Ev.op = "write"
                /\ BWrite(Ev.bytes) /\ l' = l + 1 /\ UNCHANGED <<tid, pos>>

\* a finalisation: the implementation-shaped action happens, the verdict is abstract
BlockerFinal == /\ Tr.kind = "blocker" /\ Ev.op = "final"
                /\ IF Ev.bytes \in Finals(data)
                   THEN /\ BFinalise
                        /\ (IF Ev.bytes = file' THEN TRUE ELSE PrintT(<<"NOTE", Tr.tid, l, "spec-drift-impl-file">>))
                        /\ l' = l + 1 /\ UNCHANGED <<tid, pos>>
                   ELSE Reject(Tr.tid, l, "final-file-not-in-Finals") /\ NextTrace

BlockerOneShot == /\ Tr.kind = "blocker" /\ Ev.op = "oneshot"
                  /\ IF Ev.bytes \in Finals(data)
                     THEN l' = l + 1 /\ UNCHANGED <<tid, pos, bvars>>
                     ELSE Reject(Tr.tid, l, "oneshot-file-not-in-Finals") /\ NextTrace

UnblockerRead == /\ Tr.kind = "unblocker" /\ Ev.op = "read"
                 /\ LET stream == Payload(Tr.file)
                        exp == IF Ev.n = 0 THEN SubSeq(stream, pos + 1, Len(stream))
                               ELSE SubSeq(stream, pos + 1, Lo(pos + Ev.n, Len(stream)))
                    IN IF Ev.bytes = exp
                       THEN l' = l + 1 /\ pos' = pos + Len(exp) /\ UNCHANGED <<tid, bvars>>
                       ELSE Reject(Tr.tid, l, IF Ev.n = 0 THEN "read-all-not-rest-of-stream" ELSE "read-n-not-next-slice")
                            /\ NextTrace

UnblockOnce == /\ Tr.kind = "unblock"
               /\ LET obs == [kind |-> Ev.op, bytes |-> Ev.bytes]
                  IN IF obs \in UnblockOutcomes(Tr.file)
                     THEN l' = l + 1 /\ UNCHANGED <<tid, pos, bvars>>
                     ELSE Reject(Tr.tid, l, IF WellBlocked(Tr.file) THEN "unblock-wrong-output-or-refused-valid"
                                            ELSE "unblock-accepted-or-wrong-error-on-invalid") /\ NextTrace

Step == tid <= NTr /\ l <= Len(Tr.events)
        /\ (BlockerWrite \/ BlockerFinal \/ BlockerOneShot \/ UnblockerRead \/ UnblockOnce)
TNext == EndOfTrace \/ Step
TSpec == TInit /\ [][TNext]_tvars
=============================================================================
