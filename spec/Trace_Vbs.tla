----------------------------- MODULE Trace_Vbs -----------------------------
(* Trace validation of recorded executions of VbsWriter / VbsReader / vbs_list_to_bytes / vbs_bytes_to_list with
   concrete bytes at real size.  One TLC state per recorded event.

   trace = [tid, blk, strict, loc, events]; event = [op, n, out, bytes]
     "write" : bytes = record passed to write()
     "fin"   : a finalisation (close() or leaving the context manager)
     "file"  : bytes = content of the wrapped file now           -> must be a writer file of the records written
     "given" : bytes = a file content supplied by the driver      (reader traces)
     "cut"   : n = the reader is now given only the first n bytes of the last "file"/"given" content (crash point);
               a trace may hold many cuts of one file
     "next"  : one __next__ call on a reader over the current file:
               out = "rec" (bytes = record) | "stop" | "liberr" (n = record_number or -1, bytes = context data)
                     | "exc" | "hang"
     "rewind": the same reader has been rewound (seek(0), unblocked readers only) and is read again from the start
   strict: a record that cannot be framed must raise (C07/C10); otherwise it may also just end (C09).
   loc   : also judge record_number / binary_context_data of a library error (C10). *)
EXTENDS TraceBatch, Vbs
VARIABLES tid, l, wrecs, nfin, orig, cur, rpos, ryield
tvars == <<tid, l, wrecs, nfin, orig, cur, rpos, ryield>>

Tr == Traces[tid]
Ev == Tr.events[l]
NextTrace == tid' = tid + 1 /\ l' = 1 /\ wrecs' = <<>> /\ nfin' = 0 /\ orig' = <<>> /\ cur' = <<>> /\ rpos' = 0 /\ ryield' = 0
TInit == tid = 1 /\ l = 1 /\ wrecs = <<>> /\ nfin = 0 /\ orig = <<>> /\ cur = <<>> /\ rpos = 0 /\ ryield = 0 /\ RegInit
EndOfTrace == tid <= NTr /\ l > Len(Tr.events) /\ Accept /\ NextTrace
Go == l' = l + 1 /\ tid' = tid

EvWrite == Ev.op = "write" /\ wrecs' = Append(wrecs, Ev.bytes) /\ Go /\ UNCHANGED <<nfin, orig, cur, rpos, ryield>>
EvFin   == Ev.op = "fin" /\ nfin' = nfin + 1 /\ Go /\ UNCHANGED <<wrecs, orig, cur, rpos, ryield>>
EvFile  == /\ Ev.op = "file"
           /\ IF nfin > 0 /\ ~(Ev.bytes \in WriterFiles(Tr.blk, wrecs))
              THEN Reject(Tr.tid, l, "layout-not-the-writer-file-of-the-records") /\ NextTrace
              ELSE cur' = Ev.bytes /\ orig' = Ev.bytes /\ rpos' = 0 /\ ryield' = 0 /\ Go /\ UNCHANGED <<wrecs, nfin>>
EvGiven == Ev.op = "given" /\ cur' = Ev.bytes /\ orig' = Ev.bytes /\ rpos' = 0 /\ ryield' = 0 /\ Go /\ UNCHANGED <<wrecs, nfin>>
EvCut   == Ev.op = "cut" /\ cur' = SubSeq(orig, 1, Ev.n) /\ rpos' = 0 /\ ryield' = 0 /\ Go /\ UNCHANGED <<wrecs, nfin, orig>>

EvRewind == Ev.op = "rewind" /\ rpos' = 0 /\ Go /\ UNCHANGED <<wrecs, nfin, orig, cur, ryield>>

EvNext ==
    /\ Ev.op = "next"
    /\ LET stream == StreamOf(Tr.blk, cur)
           a == ReadAt(stream, rpos)
           kinds == NextKinds(stream, rpos, Tr.strict)
       IN  IF ~(Ev.out \in kinds)
           THEN Reject(Tr.tid, l, "next-outcome-" \o Ev.out \o "-at-" \o a.k) /\ NextTrace
           ELSE IF Ev.out = "rec" /\ Ev.bytes # a.rec
           THEN Reject(Tr.tid, l, "next-record-bytes-differ") /\ NextTrace
           ELSE IF Ev.out = "liberr" /\ Tr.loc /\ Ev.n # ryield + 1
           THEN Reject(Tr.tid, l, "error-record-number") /\ NextTrace
           ELSE IF Ev.out = "liberr" /\ Tr.loc /\ ~CtxOk(stream, rpos, Ev.bytes)
           THEN Reject(Tr.tid, l, "error-context-bytes") /\ NextTrace
           ELSE /\ rpos' = a.next
                /\ ryield' = IF Ev.out = "rec" THEN ryield + 1 ELSE ryield
                /\ Go /\ UNCHANGED <<wrecs, nfin, orig, cur>>

Step == tid <= NTr /\ l <= Len(Tr.events) /\ (EvWrite \/ EvFin \/ EvFile \/ EvGiven \/ EvCut \/ EvRewind \/ EvNext)
TNext == EndOfTrace \/ Step
TSpec == TInit /\ [][TNext]_tvars
=============================================================================
