------------------------------- MODULE BitArr -------------------------------
(* cardutil.BitArray (the bit list <-> bytes conversion under the ISO8583 bitmap), both endiannesses - specification
   growth (X02).  big   : bit i of the list is bit 7 - (i mod 8) of byte i div 8 (most significant bit first)
                  little: bit i of the list is bit (i mod 8) of byte i div 8 (least significant bit first)
   Every byte string of NBytes bytes over a small value set is printed with its two bit lists and replayed. *)
EXTENDS Integers, Sequences, TLC
CONSTANTS NBytes, Values
VARIABLE bs
BitOf(b, k) == (b \div (2 ^ k)) % 2 = 1
ToListBig(x) == [i \in 1..(8 * Len(x)) |-> BitOf(x[((i - 1) \div 8) + 1], 7 - ((i - 1) % 8))]
ToListLittle(x) == [i \in 1..(8 * Len(x)) |-> BitOf(x[((i - 1) \div 8) + 1], (i - 1) % 8)]
FromListBig(l) == [j \in 1..(Len(l) \div 8) |->
                      LET v(k) == IF l[8 * (j - 1) + k] THEN 2 ^ (8 - k) ELSE 0
                      IN  v(1) + v(2) + v(3) + v(4) + v(5) + v(6) + v(7) + v(8)]
Init == bs = <<>>
Next == /\ Len(bs) < NBytes
        /\ \E v \in Values : bs' = Append(bs, v)
        /\ (IF Len(bs') = NBytes THEN PrintT(<<"B", bs', ToListBig(bs'), ToListLittle(bs')>>) ELSE TRUE)
Spec == Init /\ [][Next]_bs
RoundTrip == FromListBig(ToListBig(bs)) = bs
Mirror == \A j \in 1..Len(bs) : \A k \in 1..8 : ToListBig(bs)[8 * (j - 1) + k] = ToListLittle(bs)[8 * (j - 1) + 9 - k]
=============================================================================
