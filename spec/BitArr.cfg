CONSTANTS NBytes = 3
CONSTANT Values = {0, 1, 2, 64, 127, 128, 129, 170, 254, 255}
SPECIFICATION Spec
INVARIANT RoundTrip
INVARIANT Mirror
CHECK_DEADLOCK FALSE
