SPECIFICATION Spec
INVARIANT Sane
CHECK_DEADLOCK FALSE
