INIT Init
NEXT Next
INVARIANT Inv
CHECK_DEADLOCK FALSE
