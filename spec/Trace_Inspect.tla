---------------------------- MODULE Trace_Inspect ----------------------------
(* trace = [tid, head, flen, facts, obs]: one ipm_info call per trace (head = first bytes of the file, at least 1014
   when the file is that long; flen = full length). *)
EXTENDS Inspect
VARIABLES tid
Tr == Traces[tid]
TInit == tid = 1 /\ RegInit
TNext == /\ tid <= NTr
         /\ \E v \in {InfoVerdict(Tr.head, Tr.flen, Tr.facts, Tr.obs)} :
               IF v = "" THEN Accept ELSE Reject(Tr.tid, 1, v)
         /\ tid' = tid + 1
TSpec == TInit /\ [][TNext]_tid
=============================================================================
