CONSTANTS P = 5 T = 2 PAD = 2 MaxLen = 7 MaxRecs = 2 MaxFin = 3 GuardSecondClose = FALSE Blk = TRUE
SPECIFICATION Spec
INVARIANT LayoutInv
INVARIANT ReadBackInv
INVARIANT TruncInv
PROPERTY OnceProp
CHECK_DEADLOCK FALSE
