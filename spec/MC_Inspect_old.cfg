CONSTANTS P = 12 T = 2 S = 30 MaxBlocks = 8
SPECIFICATION Spec
INVARIANT ProbeOld
CHECK_DEADLOCK FALSE
