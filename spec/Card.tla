-------------------------------- MODULE Card --------------------------------
(***************************************************************************)
(* Card number services (cardutil.card): Luhn check digit, validation,     *)
(* masking.  Text is Seq(code point); digits are the code points 48..57.   *)
(***************************************************************************)
EXTENDS Bytes

\* the decimal digits of a string, other characters (separators) dropped
DigitsIn(s) == [i \in 1..Len(SelectSeq(s, IsDigitCp)) |-> SelectSeq(s, IsDigitCp)[i] - 48]

\* Luhn: double every second digit starting with the rightmost digit of the payload, add the digit sums,
\* the check digit makes the total a multiple of 10
LuhnSum(ds) == FoldLeft(LAMBDA a, i : LET d == ds[Len(ds) - i + 1]
                                          x == IF i % 2 = 1 THEN 2 * d ELSE d
                                      IN  a + (x \div 10) + (x % 10),
                        0, Ix(Len(ds)))
CheckDigit(s) == (10 - (LuhnSum(DigitsIn(s)) % 10)) % 10
\* a number with its check digit as last character
Valid(s) == /\ Len(s) >= 1
            /\ IsDigitCp(s[Len(s)])
            /\ CheckDigit(SubSeq(s, 1, Len(s) - 1)) = s[Len(s)] - 48

\* masking: first six and last four kept, everything between replaced
MaskOf(s, c) == [i \in 1..Len(s) |-> IF i <= 6 \/ i > Len(s) - 4 THEN s[i] ELSE c]
MaskProps(s, c) == LET m == MaskOf(s, c) IN
    /\ Len(m) = Len(s)
    /\ SubSeq(m, 1, 6) = SubSeq(s, 1, 6)
    /\ SubSeq(m, Len(s) - 3, Len(s)) = SubSeq(s, Len(s) - 3, Len(s))
    /\ \A i \in 7..(Len(s) - 4) : m[i] = c
=============================================================================
