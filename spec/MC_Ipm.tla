------------------------------- MODULE MC_Ipm -------------------------------
(* Composition of the specifications at the model level: IpmWriter = Layout ; Frame ; Blocks and
   IpmReader = unblock ; records ; Reading.  For every list of up to MaxMsgs messages drawn from a small universe
   (exported by the harness, small configuration), blocked (both admissible block counts) and unblocked:
   the records read from every admissible writer file are exactly the layouts, each reads strictly and returns every
   supplied key (C06 at the model level), and a file cut at any offset yields a prefix of those records (C09). *)
EXTENDS Iso8583, Vbs
CONSTANTS MaxMsgs
VARIABLES msgs, blk
Universe == Batch.universe                 \* Seq of message entry lists
ToDict(es) == FoldLeft(LAMBDA acc, e : Put(acc, e.k, e.v), EmptyD, es)
Msgs == [i \in 1..Len(Universe) |-> ToDict(Universe[i])]
Init == msgs = <<>> /\ blk \in BOOLEAN
Next == Len(msgs) < MaxMsgs /\ \E i \in 1..Len(Msgs) : msgs' = Append(msgs, i) /\ blk' = blk
Spec == Init /\ [][Next]_<<msgs, blk>>
Recs == [i \in 1..Len(msgs) |-> Layout(Msgs[msgs[i]], FALSE).b]
ComposeInv ==
    \A f \in WriterFiles(blk, Recs) :
        \E ra \in {ReadAll(StreamOf(blk, f))} :
            /\ ra.recs = Recs /\ ra.end = "terminator"
            /\ \A i \in 1..Len(msgs) : \E r \in {Reading(ra.recs[i], FALSE)} :
                  r.st = "strict" /\ RoundTripVerdict(Msgs[msgs[i]], r.d) = ""
CutInv ==
    \A f \in WriterFiles(blk, Recs) : \A k \in 0..Len(f) :
        \E ra \in {ReadAll(StreamOf(blk, SubSeq(f, 1, k)))} :
            /\ Len(ra.recs) <= Len(Recs) /\ ra.recs = SubSeq(Recs, 1, Len(ra.recs))
            /\ ra.end \in {"terminator", "short-prefix", "short-record"}
            /\ (ra.end = "terminator" => ra.recs = Recs)
WellFormedUniverse == \A i \in 1..Len(Msgs) : WellFormed(Msgs[i]) /\ Layout(Msgs[i], FALSE).k = "ok"
=============================================================================
