---------------------------- MODULE UnblockInt ----------------------------
(* Abstract unblocker at real size, lengths only: a blocked input of FLen cells (any length, possibly cut short),
   a first read of a cells (as one call, or as two calls of a \div 2 and the rest), then every next read size
   1..NMax and the read without a size (n = 0).  Each behaviour is printed as
   <<"T", a, c, n, start, len>>: the last read must return exactly cells start+1..start+len of the payload stream. *)
EXTENDS Blocks
CONSTANTS FLen, AS, NMax
VARIABLES pos, hist
StreamLen == (FLen \div (P + T)) * P + Lo(FLen % (P + T), P)
Take(p, n) == IF n = 0 THEN StreamLen - p ELSE Lo(n, StreamLen - p)
Init == pos = 0 /\ hist = <<>>
First == /\ hist = <<>>
         /\ \E a \in AS, c \in {0, 1} :
              /\ c = 1 => a >= 2
              /\ pos' = IF a = 0 THEN 0
                        ELSE IF c = 0 THEN Take(0, a)
                        ELSE Take(0, a \div 2) + Take(Take(0, a \div 2), a - a \div 2)
              /\ hist' = <<a, c>>
Second == /\ Len(hist) = 2
          /\ \E n \in 0..NMax :
               /\ pos' = pos + Take(pos, n)
               /\ hist' = <<hist[1], hist[2], n>>
               /\ PrintT(<<"T", hist[1], hist[2], n, pos, Take(pos, n)>>)
Next == First \/ Second
Spec == Init /\ [][Next]_<<pos, hist>>
PosInv == pos \in 0..StreamLen
\* reading in pieces delivers the same prefix as reading at once
PrefixInv == Len(hist) = 2 => pos = Lo(hist[1], StreamLen)
=============================================================================
