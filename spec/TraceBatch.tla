---------------------------- MODULE TraceBatch ----------------------------
(* Common plumbing of all Trace_* modules (DESIGN 2.6): one JSON batch per TLC start, read from the file named by
   the environment variable TRACE_FILE; register 1 counts accepted traces, register 2 the traces looked at; every
   rejected trace prints <<"REJECT", tid, eventIndex, clause>>.  Run with -workers 1. *)
EXTENDS Integers, Sequences, TLC, TLCExt, Json, IOUtils
Batch  == JsonDeserialize(IOEnv.TRACE_FILE)
Traces == Batch.traces
NTr    == Len(Traces)
RegInit == TLCSet(1, 0) /\ TLCSet(2, 0)
Accept == TLCSet(1, TLCGet(1) + 1) /\ TLCSet(2, TLCGet(2) + 1)
Reject(id, l, clause) == PrintT(<<"REJECT", id, l, clause>>) /\ TLCSet(2, TLCGet(2) + 1)
\* a rejection that does not end the trace: the trace spec carries a flag and calls EndRejected at the end
RejectCont(id, l, clause) == PrintT(<<"REJECT", id, l, clause>>)
EndRejected == TLCSet(2, TLCGet(2) + 1)
AllAccepted == PrintT(<<"ACCEPTED", TLCGet(1), TLCGet(2)>>) /\ TLCGet(1) = NTr
=============================================================================
