-------------------------- MODULE MC_ScratchLockstep --------------------------
EXTENDS ScratchLockstep
MCItems == [t \in Threads |-> IF t = 1 THEN <<"a1", "a2", "a3">> ELSE <<"b1", "b2">>]
=============================================================================
