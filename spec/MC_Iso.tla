------------------------------- MODULE MC_Iso -------------------------------
(* Exhaustive check of the ISO8583 specification against itself: over the full power set of a universe of elements
   (each absent or holding one of its candidate values; the universe and the configuration are exported from the
   working tree by the harness) and both bitmap renderings, the two directions of the specification agree:
   every well-formed message is representable, its layout is read back strictly, and the reading returns every
   supplied key with the expected value (C01), has exactly the predicted length (C02). *)
EXTENDS Iso8583
VARIABLES m, hex, idx
Universe == Batch.universe            \* Seq of [k, vals]
Base == Put(EmptyD, MTIKEY, V("s", <<49, 50, 52, 48>>))
\* messages are built element by element so that TLC's workers share the power set
Init == m = Base /\ hex \in BOOLEAN /\ idx = 1
Next == /\ idx <= Len(Universe)
        /\ idx' = idx + 1 /\ hex' = hex
        /\ \/ m' = m
           \/ \E v \in ToSet(Universe[idx].vals) : m' = Put(m, Universe[idx].k, v)
Spec == Init /\ [][Next]_<<m, hex, idx>>

\* one verdict per message; the bound variables share Layout / Reading between the clauses
Width(mm, n) == LET f == Cfg[n] v == mm[DE(n)]
                IN  PrefixLen(f) + (IF PrefixLen(f) = 0 THEN f.flen ELSE IF v.t = "b" THEN Len(v.v) ELSE Len(TextOf(f, v).s))
Verdict(LL, wf) ==
    IF wf /\ LL.k # "ok" THEN "well-formed-not-representable"
    ELSE IF (\E n \in PresentBits(m) : Cfg[n].ftype # "NONE" /\ FieldBytes(Cfg[n], m[DE(n)]).k = "over") /\ LL.k # "over"
         THEN "overlength-not-reported"
    ELSE IF LL.k # "ok" THEN ""
    ELSE IF \E r \in {Reading(LL.b, hex)} :
               \/ r.st = "bad"
               \/ (wf /\ (r.st # "strict" \/ RoundTripVerdict(m, r.d) # ""))
         THEN "layout-not-read-back"
    ELSE IF \E mm \in {WithCarriers(m).m} : \E pb \in {PresentBits(mm)} :
               Len(LL.b) # (IF hex THEN 36 ELSE 20) + FoldLeft(LAMBDA a, n : a + Width(mm, n), 0, SetToSeq(pb))
         THEN "length-not-as-predicted"
    ELSE ""
SpecAgrees == idx > Len(Universe) => \E LL \in {Layout(m, hex)} : \E wf \in {WellFormed(m)} : Verdict(LL, wf) = ""
\* vacuity guard (expected to be violated): some message of the universe is not well-formed
SomeIllFormed == WellFormed(m)
=============================================================================
