CONSTANTS Cap = 20 TagW = 2 LenW = 1 MaxItems = 4 MaxVal = 9 NTags = 5
SPECIFICATION Spec
INVARIANT PackInv
INVARIANT SortInv
CHECK_DEADLOCK FALSE
