CONSTANTS MaxRows = 5
SPECIFICATION Spec
INVARIANT RefusalInv
INVARIANT RowsInv
INVARIANT FormsAgreeInv
CHECK_DEADLOCK FALSE
