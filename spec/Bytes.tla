------------------------------- MODULE Bytes -------------------------------
(***************************************************************************)
(* Byte / character helpers.  All text is Seq(code point), all binary data *)
(* Seq(0..255); numerals longer than 9 digits are digit sequences (TLC     *)
(* integers are 32-bit).                                                   *)
(***************************************************************************)
EXTENDS Integers, Sequences, SequencesExt, FiniteSets, TLC

Ix(n) == TLCEval([i \in 1..n |-> i])
Rep(c, n) == TLCEval([i \in 1..n |-> c])
Cat(ss) == TLCEval(FoldLeft(LAMBDA acc, s : acc \o s, <<>>, ss))
Upto(a, b) == IF a < b THEN a ELSE b

IsDigitCp(c) == c >= 48 /\ c <= 57
AllDigits(s) == \A i \in 1..Len(s) : IsDigitCp(s[i])
\* value of a plain decimal numeral of at most 9 digits
NumVal(s) == FoldLeft(LAMBDA a, c : a * 10 + (c - 48), 0, s)
\* decimal digits (code points) of n >= 0, least width
RECURSIVE DigitsOfNat(_)
DigitsOfNat(n) == IF n < 10 THEN <<48 + n>> ELSE Append(DigitsOfNat(n \div 10), 48 + (n % 10))
PadLeft(s, w, c) == IF Len(s) >= w THEN s ELSE Rep(c, w - Len(s)) \o s
PadRight(s, w, c) == IF Len(s) >= w THEN s ELSE s \o Rep(c, w - Len(s))
\* n >= 0 as exactly-at-least w digits
ZDigits(n, w) == PadLeft(DigitsOfNat(n), w, 48)
StripZeros(ds) == LET nz == SelectSeq(Ix(Len(ds)), LAMBDA i : ds[i] # 48)
                  IN  IF nz = <<>> THEN <<48>> ELSE SubSeq(ds, nz[1], Len(ds))

\* hexadecimal
HexCp(n) == IF n < 10 THEN 48 + n ELSE 87 + n            \* lowercase
HexCpU(n) == IF n < 10 THEN 48 + n ELSE 55 + n           \* uppercase
Hexlify(bs) == Cat([i \in 1..Len(bs) |-> <<HexCp(bs[i] \div 16), HexCp(bs[i] % 16)>>])
HexlifyU(bs) == Cat([i \in 1..Len(bs) |-> <<HexCpU(bs[i] \div 16), HexCpU(bs[i] % 16)>>])
HexVal(c) == IF c >= 48 /\ c <= 57 THEN c - 48
             ELSE IF c >= 97 /\ c <= 102 THEN c - 87
             ELSE IF c >= 65 /\ c <= 70 THEN c - 55 ELSE -1
IsHex(s) == \A i \in 1..Len(s) : HexVal(s[i]) >= 0
Unhexlify(s) == TLCEval([i \in 1..(Len(s) \div 2) |-> HexVal(s[2 * i - 1]) * 16 + HexVal(s[2 * i])])

(***************************************************************************)
(* Lenient numerals: what Python's int() accepts on text whose code points *)
(* are below 256 (DESIGN appendix A, measured): surrounding white space,    *)
(* one sign, ASCII digits with single underscores between digits.           *)
(* Returns [ok, neg, ds] with ds the digits without underscores.            *)
(***************************************************************************)
IntWS == {9, 10, 11, 12, 13, 32, 133, 160}                       \* stripped by int()  (measured)
StrWS == {9, 10, 11, 12, 13, 28, 29, 30, 31, 32, 133, 160}       \* str.isspace / regex \s / rstrip (measured)
LStrip(s, ws) == LET keep == SelectSeq(Ix(Len(s)), LAMBDA i : s[i] \notin ws)
                 IN  IF keep = <<>> THEN <<>> ELSE SubSeq(s, keep[1], Len(s))
RStrip(s, ws) == LET keep == SelectSeq(Ix(Len(s)), LAMBDA i : s[i] \notin ws)
                 IN  IF keep = <<>> THEN <<>> ELSE SubSeq(s, 1, keep[Len(keep)])
Strip(s, ws) == RStrip(LStrip(s, ws), ws)
LenientInt(s0) ==
    LET s == Strip(s0, IntWS)
        signed == Len(s) > 0 /\ s[1] \in {43, 45}
        body == IF signed THEN SubSeq(s, 2, Len(s)) ELSE s
        okbody == /\ Len(body) > 0
                  /\ IsDigitCp(body[1]) /\ IsDigitCp(body[Len(body)])
                  /\ \A i \in 1..Len(body) : IsDigitCp(body[i]) \/ (body[i] = 95 /\ i > 1 /\ body[i - 1] # 95)
    IN  [ok |-> okbody, neg |-> signed /\ s[1] = 45,
         ds |-> IF okbody THEN SelectSeq(body, IsDigitCp) ELSE <<>>]
\* is the numeral zero (so that "-0" counts as non-negative)
AllZero(ds) == \A i \in 1..Len(ds) : ds[i] = 48
=============================================================================
