SPECIFICATION TSpec
INVARIANT IndInvHolds
POSTCONDITION AllAccepted
CHECK_DEADLOCK FALSE
