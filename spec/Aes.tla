-------------------------------- MODULE Aes --------------------------------
(***************************************************************************)
(* AES-128/192/256 encryption (ECB) as an executable reference, written    *)
(* from FIPS 197.  The S-box is generated from the field inversion and the *)
(* affine map, not copied; the appendix C vectors are checked by TLC every *)
(* time the module is loaded (ASSUME).  Blocks and keys are byte sequences.*)
(***************************************************************************)
EXTENDS Naturals, Sequences, TLC, SequencesExt, Bitwise

N8 == [i \in 1..8 |-> i]
XT(a) == LET b == (a * 2) % 256 IN IF a >= 128 THEN b ^^ 27 ELSE b            \* multiplication by x in GF(2^8)
GMul(a, b) == FoldLeft(LAMBDA acc, i : [p |-> IF (b \div (2 ^ (i - 1))) % 2 = 1 THEN acc.p ^^ acc.a ELSE acc.p,
                                        a |-> XT(acc.a)],
                       [p |-> 0, a |-> a], N8).p
GInv(a) == IF a = 0 THEN 0 ELSE CHOOSE y \in 1..255 : GMul(a, y) = 1
Rotl8(x, n) == ((x * (2 ^ n)) % 256) + (x \div (2 ^ (8 - n)))
SBoxOf(a) == LET b == GInv(a) IN (((b ^^ Rotl8(b, 1)) ^^ Rotl8(b, 2)) ^^ Rotl8(b, 3)) ^^ (Rotl8(b, 4) ^^ 99)
\* the table (indexed by byte + 1); re-derived from SBoxOf in an ASSUME below so that it is not a copied constant
SBoxT == <<99, 124, 119, 123, 242, 107, 111, 197, 48, 1, 103, 43, 254, 215, 171, 118, 202, 130, 201, 125, 250, 89, 71, 240, 173, 212, 162, 175, 156, 164, 114, 192, 183, 253, 147, 38, 54, 63, 247, 204, 52, 165, 229, 241, 113, 216, 49, 21, 4, 199, 35, 195, 24, 150, 5, 154, 7, 18, 128, 226, 235, 39, 178, 117, 9, 131, 44, 26, 27, 110, 90, 160, 82, 59, 214, 179, 41, 227, 47, 132, 83, 209, 0, 237, 32, 252, 177, 91, 106, 203, 190, 57, 74, 76, 88, 207, 208, 239, 170, 251, 67, 77, 51, 133, 69, 249, 2, 127, 80, 60, 159, 168, 81, 163, 64, 143, 146, 157, 56, 245, 188, 182, 218, 33, 16, 255, 243, 210, 205, 12, 19, 236, 95, 151, 68, 23, 196, 167, 126, 61, 100, 93, 25, 115, 96, 129, 79, 220, 34, 42, 144, 136, 70, 238, 184, 20, 222, 94, 11, 219, 224, 50, 58, 10, 73, 6, 36, 92, 194, 211, 172, 98, 145, 149, 228, 121, 231, 200, 55, 109, 141, 213, 78, 169, 108, 86, 244, 234, 101, 122, 174, 8, 186, 120, 37, 46, 28, 166, 180, 198, 232, 221, 116, 31, 75, 189, 139, 138, 112, 62, 181, 102, 72, 3, 246, 14, 97, 53, 87, 185, 134, 193, 29, 158, 225, 248, 152, 17, 105, 217, 142, 148, 155, 30, 135, 233, 206, 85, 40, 223, 140, 161, 137, 13, 191, 230, 66, 104, 65, 153, 45, 15, 176, 84, 187, 22>>
SBox == [i \in 0..255 |-> SBoxT[i + 1]]

XorSeq(a, b) == TLCEval([i \in 1..Len(a) |-> a[i] ^^ b[i]])
SubBytes(s) == TLCEval([i \in 1..16 |-> SBoxT[s[i] + 1]])
\* state bytes are column-major: byte 4c + r + 1 is row r of column c
ShiftRows(s) == TLCEval([i \in 1..16 |-> LET c == (i - 1) \div 4  r == (i - 1) % 4 IN s[4 * ((c + r) % 4) + r + 1]])
M3(x) == XT(x) ^^ x
MixColumns(s) == TLCEval([i \in 1..16 |->
    LET c == (i - 1) \div 4  r == (i - 1) % 4
        a0 == s[4 * c + 1]  a1 == s[4 * c + 2]  a2 == s[4 * c + 3]  a3 == s[4 * c + 4]
    IN  CASE r = 0 -> ((XT(a0) ^^ M3(a1)) ^^ a2) ^^ a3
          [] r = 1 -> ((a0 ^^ XT(a1)) ^^ M3(a2)) ^^ a3
          [] r = 2 -> ((a0 ^^ a1) ^^ XT(a2)) ^^ M3(a3)
          [] r = 3 -> ((M3(a0) ^^ a1) ^^ a2) ^^ XT(a3)])

\* key schedule: sequence of 4(Nr+1) words (4-byte sequences)
RECURSIVE Rc(_)
Rc(j) == IF j = 1 THEN 1 ELSE XT(Rc(j - 1))
KeyWords(key) ==
    LET nk == Len(key) \div 4
        nr == nk + 6
        step(ws, i1) ==
            LET i == i1 - 1                                     \* 0-based word index
                prev == ws[i]
                rot == <<prev[2], prev[3], prev[4], prev[1]>>
                sub(w) == <<SBoxT[w[1] + 1], SBoxT[w[2] + 1], SBoxT[w[3] + 1], SBoxT[w[4] + 1]>>
                temp == IF i % nk = 0 THEN XorSeq(sub(rot), <<Rc(i \div nk), 0, 0, 0>>)
                        ELSE IF nk > 6 /\ i % nk = 4 THEN sub(prev) ELSE prev
            IN  IF i < nk THEN Append(ws, SubSeq(key, 4 * i + 1, 4 * i + 4))
                ELSE Append(ws, XorSeq(ws[i - nk + 1], temp))
    IN  TLCEval(FoldLeft(step, <<>>, [i \in 1..(4 * (nr + 1)) |-> i]))
RoundKey(ws, n) == ws[4 * n + 1] \o ws[4 * n + 2] \o ws[4 * n + 3] \o ws[4 * n + 4]

AesBlock(key, blk) ==
    LET ws == KeyWords(key)
        nr == Len(key) \div 4 + 6
        s0 == XorSeq(blk, RoundKey(ws, 0))
        mid == FoldLeft(LAMBDA s, n : XorSeq(MixColumns(ShiftRows(SubBytes(s))), RoundKey(ws, n)), s0, [n \in 1..(nr - 1) |-> n])
    IN  XorSeq(ShiftRows(SubBytes(mid)), RoundKey(ws, nr))
AesEcb(key, data) ==
    TLCEval(FoldLeft(LAMBDA acc, j : acc \o AesBlock(key, SubSeq(data, 16 * j - 15, 16 * j)), <<>>, [j \in 1..(Len(data) \div 16) |-> j]))

\* FIPS 197: S-box corner values and the appendix C example vectors
Upto0(n) == [i \in 1..n |-> i - 1]
PT == [i \in 1..16 |-> 17 * (i - 1)]          \* 00 11 22 ... ff
ASSUME SBox[0] = 99 /\ SBox[1] = 124 /\ SBox[83] = 237 /\ SBox[255] = 22
ASSUME \A i \in 0..255 : SBoxT[i + 1] = SBoxOf(i)
ASSUME AesBlock(Upto0(16), PT) = <<105, 196, 224, 216, 106, 123, 4, 48, 216, 205, 183, 128, 112, 180, 197, 90>>
ASSUME AesBlock(Upto0(24), PT) = <<221, 169, 124, 164, 134, 76, 223, 224, 110, 175, 112, 160, 236, 13, 113, 145>>
ASSUME AesBlock(Upto0(32), PT) = <<142, 162, 183, 202, 81, 103, 69, 191, 234, 252, 73, 144, 75, 73, 96, 137>>
=============================================================================
