------------------------------- MODULE MC_Card -------------------------------
(* Exhaustive checks of the card specification:
   Luhn: for every digit string up to MaxLen digits: appending the check digit validates; every single-digit change and
   every adjacent transposition (other than 0<->9) of a valid number is invalid.
   Mask: for every string of length 10..MaskMax over {digit, letter, mask character} and every mask character: MaskProps.
   Each digit string is printed as <<"T", digits, check digit>> for replay on the real functions. *)
EXTENDS Card
CONSTANTS MaxLen, MaskMax, Mode       \* Mode = "luhn" | "mask"
VARIABLES s, done
Sym == IF Mode = "luhn" THEN 48..57 ELSE {53, 65, 42}
Cap == IF Mode = "luhn" THEN MaxLen ELSE MaskMax
Init == s = <<>> /\ done = FALSE
Next == /\ ~done
        /\ \/ (Len(s) < Cap /\ \E c \in Sym : s' = Append(s, c) /\ done' = FALSE)
           \/ (done' = TRUE /\ s' = s /\ (IF Mode = "luhn" THEN PrintT(<<"T", s, CheckDigit(s)>>) ELSE TRUE))
Spec == Init /\ [][Next]_<<s, done>>
WithCd(x) == Append(x, 48 + CheckDigit(x))
AppendValid == (Mode = "luhn" /\ done) => Valid(WithCd(s))
Detects == (Mode = "luhn" /\ done /\ Len(s) >= 1) =>
    LET v == WithCd(s) IN
      /\ \A i \in 1..Len(v) : \A d \in 48..57 : d # v[i] => ~Valid([v EXCEPT ![i] = d])
      /\ \A i \in 1..(Len(v) - 1) :
            (v[i] # v[i + 1] /\ {v[i], v[i + 1]} # {48, 57}) => ~Valid([v EXCEPT ![i] = v[i + 1], ![i + 1] = v[i]])
MaskInv == (Mode = "mask" /\ done /\ Len(s) >= 10) => \A c \in {42, 88, 35} : MaskProps(s, c)
=============================================================================
