------------------------------- MODULE MC_Pds -------------------------------
(* Exhaustive check of the PDS packing at scaled constants (Cap, TagW, LenW from the cfg): every set of up to MaxItems
   distinct tags with every value length 0..MaxVal (content position-coded, or digits that look like a header).
   Properties: every carrier within Cap, no item split, ascending order kept, greedy, unpack(pack(S)) = S. *)
EXTENDS Pds
CONSTANTS MaxItems, MaxVal, NTags
VARIABLES items, done
Tag(i) == ZDigits(i, TagW)
\* value content: shape 0 = letters by position, shape 1 = digits that look like a tag/length header
Val(n, shape) == [j \in 1..n |-> IF shape = 0 THEN 65 + (j % 26) ELSE 48 + (j % 2)]
Init == items = <<>> /\ done = FALSE
Next == /\ ~done
        /\ \/ (done' = TRUE /\ items' = items)
           \/ /\ Len(items) < MaxItems
              /\ \E t \in 1..NTags, n \in 0..MaxVal, sh \in {0, 1} :
                    /\ (IF items = <<>> THEN TRUE ELSE LexLess(items[Len(items)].tag, Tag(t)))      \* ascending, distinct
                    /\ items' = Append(items, [tag |-> Tag(t), val |-> Val(n, sh)])
              /\ done' = FALSE
Spec == Init /\ [][Next]_<<items, done>>
Packs == Pack(items)
PackInv == done => /\ FitsCap(Packs)
                   /\ NoSplit(items, Packs)
                   /\ RoundTrip(items, Packs)
                   /\ Greedy(Packs)
                   /\ \A i \in 1..Len(Packs) : Packs[i] # <<>>
                   /\ (items = <<>> <=> Packs = <<>>)
\* sorting an arbitrary permutation gives back the ascending sequence
SortInv == done => SortItems(Reverse(items)) = items
=============================================================================
