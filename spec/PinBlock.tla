------------------------------ MODULE PinBlock ------------------------------
(***************************************************************************)
(* ISO 9564 PIN block formats 0 and 4, Visa PVV, key check values and key  *)
(* component combination (cardutil.pinblock, cardutil.key), over nibble    *)
(* sequences (values 0..15).  PINs and PANs are digit sequences (0..9).    *)
(***************************************************************************)
EXTENDS Des, Aes

Nibbles(bs) == TLCEval([i \in 1..(2 * Len(bs)) |-> IF i % 2 = 1 THEN bs[(i + 1) \div 2] \div 16 ELSE bs[i \div 2] % 16])
Bytes(ns) == TLCEval([j \in 1..(Len(ns) \div 2) |-> ns[2 * j - 1] * 16 + ns[2 * j]])
NRep(c, n) == [i \in 1..n |-> c]
NXor(a, b) == TLCEval([i \in 1..Len(a) |-> a[i] ^^ b[i]])

\* the 12 rightmost digits of the card number excluding the check digit
Pan12(pan) == SubSeq(pan, Len(pan) - 12, Len(pan) - 1)
\* format 0: (0, length as one hex digit, PIN, F fill) XOR (0000, Pan12)
Iso0Clear(pin) == <<0, Len(pin)>> \o pin \o NRep(15, 14 - Len(pin))
Iso0(pin, pan) == Bytes(NXor(Iso0Clear(pin), <<0, 0, 0, 0>> \o Pan12(pan)))
\* format 4: (4, length hex digit, PIN, A fill to 16 digits) followed by 64 random bits (16 nibbles)
Iso4Head(pin) == <<4, Len(pin)>> \o pin \o NRep(10, 14 - Len(pin))
Iso4(pin, rnd) == Bytes(Iso4Head(pin) \o rnd)
\* reading a PIN back from the clear nibbles of a block
PinOfNibbles(ns) == SubSeq(ns, 3, 2 + ns[2])
PinOf0(block, pan) == PinOfNibbles(NXor(Nibbles(block), <<0, 0, 0, 0>> \o Pan12(pan) ))
PinOf4(block) == PinOfNibbles(Nibbles(block))

\* Visa PVV: TSP = 11 rightmost PAN digits excluding the check digit, key index, leftmost 4 PIN digits
Pan11(pan) == SubSeq(pan, Len(pan) - 11, Len(pan) - 1)
Tsp(pin, pan, idx) == Pan11(pan) \o <<idx>> \o SubSeq(pin, 1, 4)
\* decimalisation: the decimal digits of the hex result in order, then (if fewer than four) A-F mapped to 0-5 in order
Decimalise(ns) == LET p1 == SelectSeq(ns, LAMBDA n : n < 10)
                      p2 == [i \in 1..Len(SelectSeq(ns, LAMBDA n : n >= 10)) |-> SelectSeq(ns, LAMBDA n : n >= 10)[i] - 10]
                  IN  SubSeq(IF Len(p1) >= 4 THEN p1 ELSE p1 \o p2, 1, 4)
Pvv(pin, pan, idx, key) == Decimalise(Nibbles(TDesEcb(key, Bytes(Tsp(pin, pan, idx)))))

\* key management
XorBytes(a, b) == TLCEval([i \in 1..Len(a) |-> a[i] ^^ b[i]])
Combine(parts) == FoldLeft(XorBytes, [i \in 1..16 |-> 0], parts)
\* (the leading hex digits only depend on the first cipher block)
Kcv(key, n) == SubSeq(Nibbles(TDes(key, [i \in 1..8 |-> 0])), 1, n)
EncZmk(mk, parts) == TDesEcb(mk, Combine(parts))
=============================================================================
