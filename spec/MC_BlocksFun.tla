---------------------------- MODULE MC_BlocksFun ----------------------------
(* Exhaustive check of the one-shot functions over every data string up to MaxData cells over {PAD, 1, 2}:
   blocking then unblocking returns the data followed by fill only; every cut and every single trailer
   corruption of a blocked file is refused. *)
EXTENDS Blocks
CONSTANTS MaxData
VARIABLE d
Alphabet == {PAD, 1, 2}
Strings == UNION { [1..n -> Alphabet] : n \in 0..MaxData }
Init == d \in Strings
Next == FALSE /\ d' = d
Spec == Init /\ [][Next]_d
Ks == { MinBlocks(d), MinBlocks(d) + 1 }
InvertInv == \A k \in Ks : LET f == Blocks(d, k) IN
                /\ WellBlocked(f)
                /\ UnblockOutcomes(f) = {[kind |-> "ok", bytes |-> Payload(f)]}
                /\ IsDataThenFill(Payload(f), d)
                /\ Len(f) = k * (P + T)
CutInv == \A k \in Ks : LET f == Blocks(d, k) IN
             \A n \in 0..Len(f) : WellBlocked(SubSeq(f, 1, n)) <=> n % (P + T) = 0
TrailerInv == \A k \in Ks : LET f == Blocks(d, k) IN
             \A j \in 1..k, t \in 1..T, v \in {1, 2} :
                 ~WellBlocked([f EXCEPT ![(j - 1) * (P + T) + P + t] = v])
=============================================================================
