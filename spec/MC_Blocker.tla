---------------------------- MODULE MC_Blocker ----------------------------
(* Exhaustive instance of the blocker: every history of up to MaxWrites writes of every length 0..MaxLen,
   then Finalise.  Content is position-coded and contains PAD-valued data cells. *)
EXTENDS Blocker
CONSTANTS MaxWrites, MaxLen
Code(i) == IF i % 3 = 0 THEN PAD ELSE i
Cells(lo, n) == [i \in 1..n |-> Code(lo + i - 1)]
MCNext == \/ (nw < MaxWrites /\ \E n \in 0..MaxLen : BWrite(Cells(Len(data) + 1, n)) \/ BWrite(Pads(n)))
          \/ BFinalise
MCSpec == BInit /\ [][MCNext]_bvars
\* vacuity guards: the interesting situations are reachable
ReachPending == ~(rem = 0)            \* expected to be VIOLATED (used by the coverage self-test only)
=============================================================================
