------------------------------ MODULE Trace_Csv ------------------------------
(* CSV -> IPM -> CSV (mci_csv_to_ipm then mci_ipm_to_csv).
   trace = [tid, kind, rin, rout]; rin / rout = Seq of rows, a row = Seq of [name, text] (cells as code points, only
   non-empty cells listed).  kind = "ok" | "exc".
   Required: same number of rows in the same order and, for every supplied (non-empty) input cell, the same text in
   the output row.  Typed columns: a number comes back in plain decimal, a date-time as YYYY-MM-DD hh:mm:ss - so the
   supplied text itself must have that form to come back equal (DESIGN: other spellings are don't-cares and are not
   generated).  The IPM file in the middle is judged by Trace_Ipm (writer file of Layout of each row's dictionary). *)
EXTENDS TraceBatch, Sequences, Integers
VARIABLES tid
Tr == Traces[tid]
Cell(row, name) == LET hit == SelectSeq(row, LAMBDA c : c.name = name) IN IF hit = <<>> THEN <<>> ELSE hit[1].text
Verdict(t) ==
    IF t.kind # "ok" THEN "tool-raised"
    ELSE IF Len(t.rout) # Len(t.rin) THEN "row-count-differs"
    ELSE IF \E i \in 1..Len(t.rin) : \E j \in 1..Len(t.rin[i]) :
               Cell(t.rout[i], t.rin[i][j].name) # t.rin[i][j].text
         THEN "supplied-cell-changed"
    ELSE ""
TInit == tid = 1 /\ RegInit
TNext == /\ tid <= NTr
         /\ \E v \in {Verdict(Tr)} : IF v = "" THEN Accept ELSE Reject(Tr.tid, 1, v)
         /\ tid' = tid + 1
TSpec == TInit /\ [][TNext]_tid
=============================================================================
