---- MODULE DesTest ----
EXTENDS Aes
VARIABLE x
Init == x = 0
Next == x < 200 /\ x' = x + 1
Inv == Len(AesBlock(Upto0(16), [i \in 1..16 |-> (x + i) % 256])) = 16
====
