------------------------------ MODULE Trace_Pin ------------------------------
(* Trace validation of recorded calls of cardutil.pinblock / cardutil.key.
   trace = [tid, events]; event = [op, pin, pan, idx, key, data, parts, n, supplied, kind, out]
   (pin, pan: digits 0..9; key, data: bytes; parts: Seq of 16-byte sequences; out: bytes, digits or nibbles)
     "iso0"    Iso0PinBlock(pin, pan).to_bytes()                      out = block bytes
     "iso0pin" Iso0PinBlock.from_bytes(data, pan).pin                 out = PIN digits
     "iso4"    Iso4PinBlock(pin[, random_value]).to_bytes()           out = block bytes; supplied => data = the 8 fill bytes
     "iso4pin" Iso4PinBlock.from_bytes(data).pin
     "tdes"    TDES to_enc_bytes(key) of clear block `data`           out = ciphertext
     "aes"     AES  to_enc_bytes(key) of clear block `data`
     "encpin"  from_enc_bytes(...).pin of a block built from `pin`    out = PIN digits
     "pvv"     calculate_pvv / to_pvv                                 out = PVV digits
     "kcv"     calculate_kcv(key, n)                                  out = hex digits as nibbles
     "zmk"     get_zone_master_key(parts...)[0]                         out = clear key nibbles
     "enczmk"  get_enc_zone_master_key(key, parts...)[0]                out = encrypted key nibbles
   A format-4 block built without a supplied fill must carry a fill not issued before in the same trace (fresh); over a
   long trace the 64 fill bits must each be set about half of the time (Balanced). *)
EXTENDS TraceBatch, PinBlock
VARIABLES tid, l, bad, issued
tvars == <<tid, l, bad, issued>>
Tr == Traces[tid]
Ev == Tr.events[l]
TInit == tid = 1 /\ l = 1 /\ bad = FALSE /\ issued = {} /\ RegInit
\* "64 random bits": over a trace that issued N >= 400 fills, every one of the 64 bit positions is set in about half of
\* them - within 7 standard deviations, |2c - N| <= 7 sqrt(N), i.e. (2c - N)^2 <= 49 N  (a fair source fails this for
\* some position with probability below 2 * 10^-10)
BitSet(f, i, j) == (f[i] \div (2 ^ j)) % 2 = 1
Balanced(fills) ==
    LET N == Cardinality(fills) IN
    \A i \in 1..8, j \in 0..7 :
        LET c == Cardinality({f \in fills : BitSet(f, i, j)}) IN (2 * c - N) * (2 * c - N) <= 49 * N
EndOfTrace == /\ tid <= NTr /\ l > Len(Tr.events)
              /\ \E unb \in {Cardinality(issued) >= 400 /\ ~Balanced(issued)} :
                    /\ (IF unb THEN RejectCont(Tr.tid, l, "iso4-fill-bits-not-balanced") ELSE TRUE)
                    /\ (IF bad \/ unb THEN EndRejected ELSE Accept)
              /\ tid' = tid + 1 /\ l' = 1 /\ bad' = FALSE /\ issued' = {}
Verdict(e) ==
    IF e.kind # "ok" THEN e.op \o "-raised"
    ELSE CASE e.op = "iso0" -> IF e.out = Iso0(e.pin, e.pan) THEN "" ELSE "iso0-block-differs"
           [] e.op = "iso0pin" -> IF e.out = PinOf0(e.data, e.pan) THEN "" ELSE "iso0-pin-not-returned"
           [] e.op = "iso4" ->
                 IF Len(e.out) # 16 THEN "iso4-block-length"
                 ELSE IF e.supplied THEN (IF e.out = Iso4(e.pin, Nibbles(e.data)) THEN "" ELSE "iso4-block-differs")
                 ELSE IF SubSeq(e.out, 1, 8) # Bytes(Iso4Head(e.pin)) THEN "iso4-block-differs"
                 ELSE IF SubSeq(e.out, 9, 16) \in issued THEN "iso4-fill-not-fresh" ELSE ""
           [] e.op = "iso4pin" -> IF e.out = PinOf4(e.data) THEN "" ELSE "iso4-pin-not-returned"
           [] e.op = "tdes" -> IF e.out = TDesEcb(e.key, e.data) THEN "" ELSE "tdes-ciphertext-differs"
           [] e.op = "aes" -> IF e.out = AesEcb(e.key, e.data) THEN "" ELSE "aes-ciphertext-differs"
           [] e.op = "encpin" -> IF e.out = e.pin THEN "" ELSE "encrypted-block-does-not-return-the-pin"
           [] e.op = "pvv" -> IF e.out = Pvv(e.pin, e.pan, e.idx, e.key) THEN "" ELSE "pvv-differs"
           [] e.op = "kcv" -> IF e.out = Kcv(e.key, e.n) THEN "" ELSE "kcv-differs"
           [] e.op = "zmk" -> IF e.out = Nibbles(Combine(e.parts)) THEN "" ELSE "combined-key-differs"
           [] e.op = "enczmk" -> IF e.out = Nibbles(EncZmk(e.key, e.parts)) THEN "" ELSE "encrypted-zone-key-differs"
           [] OTHER -> "unknown-op"
Step == /\ tid <= NTr /\ l <= Len(Tr.events)
        /\ \E v \in {Verdict(Ev)} :
             /\ (IF v # "" THEN RejectCont(Tr.tid, l, v) ELSE TRUE)
             /\ bad' = (bad \/ v # "")
        /\ issued' = IF Ev.op = "iso4" /\ ~Ev.supplied /\ Len(Ev.out) = 16 THEN issued \cup {SubSeq(Ev.out, 9, 16)} ELSE issued
        /\ l' = l + 1 /\ tid' = tid
TNext == EndOfTrace \/ Step
TSpec == TInit /\ [][TNext]_tvars
=============================================================================
