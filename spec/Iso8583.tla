------------------------------ MODULE Iso8583 ------------------------------
(***************************************************************************)
(* ISO8583 message layout and reading (cardutil.iso8583 dumps / loads).    *)
(*                                                                         *)
(* Written from the module documentation and the property statements, not  *)
(* from the code: Layout(m) is the wire format of a message dictionary,    *)
(* Reading(b) the independent strict reading of a byte string with its     *)
(* don't-care regions (DESIGN R2):                                         *)
(*    st = "strict"  : b is well framed, every numeral plain -> must be     *)
(*                     accepted with exactly the dictionary d               *)
(*    st = "lenient" : b is framed only under Python's lenient numerals /   *)
(*                     other don't-cares -> accepted with d (wild parts     *)
(*                     unjudged) or rejected                                *)
(*    st = "bad"     : must be rejected with the library's data error       *)
(*                                                                         *)
(* The field configuration and the text codec come from the batch file     *)
(* (exported from /repo's config.py and the interpreter's codec tables by  *)
(* the harness at check time, DESIGN R4).                                  *)
(*   Cfg[bit] = [ftype, flen, py, proc, fmt, de43]                         *)
(*   Dec[byte+1] = code point or -1                                        *)
(* Dictionaries are functions from keys [kind, n, s] to values [t, v].     *)
(***************************************************************************)
EXTENDS Bytes, TraceBatch

Consts == Batch.consts
Cfg == Consts.cfg
Dec == Consts.dec

PDS == INSTANCE Pds WITH Cap <- 999, TagW <- 4, LenW <- 3

K(kind, n, s) == [kind |-> kind, n |-> n, s |-> s]
V(t, v) == [t |-> t, v |-> v]
ANY == V("any", <<>>)
DE(n) == K("DE", n, <<>>)
MTIKEY == K("MTI", 0, <<>>)
EmptyD == TLCEval([x \in {} |-> ANY])
Put(d, k, v) == (k :> v) @@ d
PutAll(d, kvs) == FoldLeft(LAMBDA acc, kv : Put(acc, kv[1], kv[2]), d, kvs)

(***************************************************************************)
(* Text codec (single-byte)                                                *)
(***************************************************************************)
CpSet == {Dec[i] : i \in 1..256} \ {-1}
Enc == TLCEval([cp \in CpSet |-> CHOOSE b \in 0..255 : Dec[b + 1] = cp])
DecodeOk(bs) == \A i \in 1..Len(bs) : Dec[bs[i] + 1] # -1
DecodeText(bs) == TLCEval([i \in 1..Len(bs) |-> Dec[bs[i] + 1]])
EncodeOk(s) == \A i \in 1..Len(s) : s[i] \in CpSet
EncodeText(s) == TLCEval([i \in 1..Len(s) |-> Enc[s[i]]])

PrefixLen(f) == CASE f.ftype = "LLVAR" -> 2 [] f.ftype = "LLLVAR" -> 3 [] OTHER -> 0
MaxCount(pl) == IF pl = 2 THEN 99 ELSE 999
Carriers == SelectSeq(Ix(128), LAMBDA b : Cfg[b].ftype # "NONE" /\ Cfg[b].proc = "PDS")

(***************************************************************************)
(* Bitmap: 128 bits, bit 1 most significant bit of the first byte          *)
(***************************************************************************)
BitmapOf(S) == TLCEval([j \in 1..16 |-> FoldLeft(LAMBDA a, i : a * 2 + (IF (j - 1) * 8 + i \in S THEN 1 ELSE 0), 0, Ix(8))])
BitSet(bm) == {i \in 1..128 : (bm[((i - 1) \div 8) + 1] \div (2 ^ (7 - ((i - 1) % 8)))) % 2 = 1}

(***************************************************************************)
(* Date-times.  fmt = sequence of directives "y" "Y" "m" "d" "H" "M" "S";   *)
(* value = <<Y, M, D, h, m, s, us>>                                         *)
(***************************************************************************)
DirW(c) == IF c = "Y" THEN 4 ELSE 2
FmtW(fmt) == FoldLeft(LAMBDA a, c : a + DirW(c), 0, fmt)
Comp(c, dt) == CASE c = "y" -> dt[1] % 100 [] c = "Y" -> dt[1] [] c = "m" -> dt[2] [] c = "d" -> dt[3]
                 [] c = "H" -> dt[4] [] c = "M" -> dt[5] [] c = "S" -> dt[6]
FormatDt(fmt, dt) == Cat([i \in 1..Len(fmt) |-> ZDigits(Comp(fmt[i], dt), DirW(fmt[i]))])
Leap(y) == (y % 4 = 0 /\ y % 100 # 0) \/ y % 400 = 0
DaysIn(y, m) == IF m = 2 THEN (IF Leap(y) THEN 29 ELSE 28) ELSE IF m \in {4, 6, 9, 11} THEN 30 ELSE 31
\* text must be FmtW(fmt) plain digits; returns [ok, dt]
ParseDt(fmt, text) ==
    LET offs == [i \in 1..Len(fmt) |-> FoldLeft(LAMBDA a, c : a + DirW(c), 0, SubSeq(fmt, 1, i - 1))]
        fld(c) == LET hit == SelectSeq(Ix(Len(fmt)), LAMBDA i : fmt[i] = c)
                  IN  IF hit = <<>> THEN -1
                      ELSE NumVal(SubSeq(text, offs[hit[Len(hit)]] + 1, offs[hit[Len(hit)]] + DirW(c)))
        yy == fld("y")
        y  == IF fld("Y") >= 0 THEN fld("Y") ELSE IF yy < 0 THEN 1900 ELSE IF yy >= 69 THEN 1900 + yy ELSE 2000 + yy
        mo == IF fld("m") < 0 THEN 1 ELSE fld("m")
        d  == IF fld("d") < 0 THEN 1 ELSE fld("d")
        h  == IF fld("H") < 0 THEN 0 ELSE fld("H")
        mi == IF fld("M") < 0 THEN 0 ELSE fld("M")
        s  == IF fld("S") < 0 THEN 0 ELSE fld("S")
        ok == y >= 1 /\ y <= 9999 /\ mo >= 1 /\ mo <= 12 /\ d >= 1 /\ d <= DaysIn(y, mo) /\ h < 24 /\ mi < 60 /\ s < 60
    IN  [ok |-> ok, dt |-> <<y, mo, d, h, mi, s, 0>>]
\* a date-time the format can carry and give back
DtRoundTrips(fmt, dt) ==
    /\ dt[7] = 0
    /\ \A c \in {"m", "d", "H", "M", "S"} :
          (\A i \in 1..Len(fmt) : fmt[i] # c) =>
              Comp(c, dt) = (IF c \in {"m", "d"} THEN 1 ELSE 0)
    /\ (\E i \in 1..Len(fmt) : fmt[i] = "Y") => (dt[1] >= 1000 /\ dt[1] <= 9999)
    /\ ((\A i \in 1..Len(fmt) : fmt[i] # "Y") /\ (\E i \in 1..Len(fmt) : fmt[i] = "y")) => (dt[1] >= 1969 /\ dt[1] <= 2068)
    /\ (\A i \in 1..Len(fmt) : fmt[i] \notin {"y", "Y"}) => dt[1] = 1900

\* ISO text form "YYYY-MM-DD hh:mm:ss" (19 characters)
IsIsoDt(t) == /\ Len(t) = 19
              /\ \A i \in 1..19 : IF i \in {5, 8} THEN t[i] = 45 ELSE IF i = 11 THEN t[i] = 32
                                    ELSE IF i \in {14, 17} THEN t[i] = 58 ELSE IsDigitCp(t[i])
IsoDt(t) == <<NumVal(SubSeq(t, 1, 4)), NumVal(SubSeq(t, 6, 7)), NumVal(SubSeq(t, 9, 10)),
              NumVal(SubSeq(t, 12, 13)), NumVal(SubSeq(t, 15, 16)), NumVal(SubSeq(t, 18, 19)), 0>>
IsoText(dt) == ZDigits(dt[1], 4) \o <<45>> \o ZDigits(dt[2], 2) \o <<45>> \o ZDigits(dt[3], 2) \o <<32>>
               \o ZDigits(dt[4], 2) \o <<58>> \o ZDigits(dt[5], 2) \o <<58>> \o ZDigits(dt[6], 2)

(***************************************************************************)
(* Decimals: value = <<scale, d1, d2, ...>> (non-negative, digits as code   *)
(* points without leading zeros, `scale` fraction digits)                   *)
(***************************************************************************)
DecimalText(v, w) ==
    LET scale == v[1]
        ds == PadLeft(SubSeq(v, 2, Len(v)), scale + 1, 48)
        body == IF scale = 0 THEN ds
                ELSE SubSeq(ds, 1, Len(ds) - scale) \o <<46>> \o SubSeq(ds, Len(ds) - scale + 1, Len(ds))
    IN  PadLeft(body, w, 48)
\* plain decimal text: digits with at most one '.' between digits
PlainDecimal(text) ==
    LET dots == SelectSeq(Ix(Len(text)), LAMBDA i : text[i] = 46)
    IN  /\ Len(text) > 0 /\ Len(dots) <= 1
        /\ \A i \in 1..Len(text) : IsDigitCp(text[i]) \/ text[i] = 46
        /\ IsDigitCp(text[1]) /\ IsDigitCp(text[Len(text)])
\* every character that can occur in some text accepted by a lenient decimal numeral reader
DecimalChars == (48..57) \cup {43, 45, 46, 95, 69, 101} \cup IntWS
                \cup {78, 110, 65, 97, 83, 115, 73, 105, 70, 102, 84, 116, 89, 121}      \* N A S I F T Y (NaN sNaN Infinity)
DecimalOf(text) ==
    LET dots == SelectSeq(Ix(Len(text)), LAMBDA i : text[i] = 46)
        scale == IF dots = <<>> THEN 0 ELSE Len(text) - dots[1]
    IN  <<scale>> \o StripZeros(SelectSeq(text, IsDigitCp))

(***************************************************************************)
(* Card number masking (cardutil.card.mask, '*')                           *)
(***************************************************************************)
Mask(s, c) == TLCEval([i \in 1..Len(s) |-> IF i <= 6 \/ i > Len(s) - 4 THEN s[i] ELSE c])

(***************************************************************************)
(* ICC (EMV) data: tag (1 byte, 2 if the first is 9F or 5F), length (1     *)
(* byte), value; a one-byte 00 tag ends the reading.                       *)
(* strict = the bytes are a whole TLV sequence.                            *)
(***************************************************************************)
RECURSIVE IccFrom(_, _, _)
IccFrom(body, p, acc) ==
    IF p > Len(body) THEN [strict |-> TRUE, es |-> acc]
    ELSE LET two == body[p] \in {159, 95}
             tag == SubSeq(body, p, Upto(p + (IF two THEN 1 ELSE 0), Len(body)))
             q == p + (IF two THEN 2 ELSE 1)
         IN  IF tag = <<0>> THEN [strict |-> TRUE, es |-> acc]
             ELSE IF q > Len(body) THEN [strict |-> FALSE, es |-> acc]
             ELSE LET n == body[q]
                      val == SubSeq(body, q + 1, Upto(q + n, Len(body)))
                      e == <<K("TAG", 0, HexlifyU(tag)), V("s", Hexlify(val))>>
                  IN  IF q + n > Len(body) THEN [strict |-> FALSE, es |-> Append(acc, e)]
                      ELSE IccFrom(body, q + 1 + n, Append(acc, e))
IccWalk(body) == IccFrom(body, 1, <<>>)

(***************************************************************************)
(* Merchant name/location split (the packaged DE43 expression, DESIGN      *)
(* appendix A): the first (n1, n2, n3) in lexicographic order such that    *)
(* name / address / suburb are non-empty newline-free segments each        *)
(* followed by all following spaces and a backslash, and the rest (minus   *)
(* at most one final newline) is 16 newline-free characters whose last     *)
(* three are not white space.  No such split -> no DE43_* entries.         *)
(***************************************************************************)
BS == 92
NL == 10
\* nns[i] = least j >= i with s[j] not a space, Len(s) + 1 if none   (one pass from the right)
NNS(s) == TLCEval(FoldLeft(LAMBDA acc, k : LET i == Len(s) - k + 1
                                          IN  <<IF s[i] # 32 THEN i ELSE acc[1]>> \o acc,
                           <<Len(s) + 1>>, Ix(Len(s))))
FirstNL(s) == LET r == SelectSeq(Ix(Len(s)), LAMBDA j : s[j] = NL) IN IF r = <<>> THEN Len(s) + 1 ELSE r[1]
\* ends n >= start of a newline-free segment start..n that is followed by spaces and then a backslash
SegEnds(s, nns, fnl, start) ==
    IF start > Len(s) \/ fnl <= start THEN <<>>
    ELSE SelectSeq([j \in 1..(fnl - start) |-> start + j - 1], LAMBDA n : nns[n + 1] <= Len(s) /\ s[nns[n + 1]] = BS)
TailOk(s, from) ==
    LET rest == SubSeq(s, from, Len(s))
        core == IF Len(rest) = 17 /\ rest[17] = NL THEN SubSeq(rest, 1, 16) ELSE rest
    IN  /\ Len(core) = 16
        /\ \A i \in 1..16 : core[i] # NL
        /\ \A i \in 14..16 : core[i] \notin StrWS
De43Key(name) == K("DE43", 0, name)
\* all admissible (n1, n2, n3); the bound variables are values, so nothing is evaluated twice
De43Cands(s) ==
    LET nns == NNS(s)
        fnl == FirstNL(s)
    IN  UNION { UNION { { <<n1, n2, n3>> : n3 \in {x \in ToSet(SegEnds(s, nns, fnl, nns[n2 + 1] + 1)) : TailOk(s, nns[x + 1] + 1)} }
                        : n2 \in ToSet(SegEnds(s, nns, fnl, nns[n1 + 1] + 1)) }
                : n1 \in ToSet(SegEnds(s, nns, fnl, 1)) }
LexMin3(S) == CHOOSE t \in S : \A u \in S : \/ t[1] < u[1]
                                            \/ (t[1] = u[1] /\ t[2] < u[2])
                                            \/ (t[1] = u[1] /\ t[2] = u[2] /\ t[3] <= u[3])
De43Entries(s, t) ==
    LET nns == NNS(s)
        n1 == t[1] n2 == t[2] n3 == t[3]
        b1 == nns[n1 + 1] b2 == nns[n2 + 1] b3 == nns[n3 + 1]
    IN  << <<De43Key(<<78, 65, 77, 69>>), V("s", SubSeq(s, 1, n1))>>,
           <<De43Key(<<65, 68, 68, 82, 69, 83, 83>>), V("s", SubSeq(s, b1 + 1, n2))>>,
           <<De43Key(<<83, 85, 66, 85, 82, 66>>), V("s", SubSeq(s, b2 + 1, n3))>>,
           <<De43Key(<<80, 79, 83, 84, 67, 79, 68, 69>>), V("s", RStrip(SubSeq(s, b3 + 1, b3 + 10), StrWS))>>,
           <<De43Key(<<83, 84, 65, 84, 69>>), V("s", SubSeq(s, b3 + 11, b3 + 13))>>,
           <<De43Key(<<67, 79, 85, 78, 84, 82, 89>>), V("s", SubSeq(s, b3 + 14, b3 + 16))>> >>
De43Split(s) == LET c == De43Cands(s) IN IF c = {} THEN <<>> ELSE De43Entries(s, LexMin3(c))

(***************************************************************************)
(* LAYOUT (dict -> bytes)                                                  *)
(***************************************************************************)
\* is a supplied value "present" (the empty string / empty bytes mean absent; the number 0 is present)
NonEmpty(v) == ~(v.t \in {"s", "b"} /\ v.v = <<>>)

\* the text of a value under a field configuration, before padding: [ok, s]
TextOf(f, v) ==
    CASE f.py \in {"int", "long"} ->
            IF v.t = "i" THEN [ok |-> TRUE, s |-> PadLeft(v.v, f.flen, 48)]
            ELSE IF v.t = "s" /\ AllDigits(v.v) /\ v.v # <<>> THEN [ok |-> TRUE, s |-> PadLeft(StripZeros(v.v), f.flen, 48)]
            ELSE [ok |-> FALSE, s |-> <<>>]
      [] f.py = "datetime" ->
            IF v.t = "dt" THEN [ok |-> TRUE, s |-> FormatDt(f.fmt, v.v)]
            \* a date-time given as text in ISO form YYYY-MM-DD hh:mm:ss (the CSV tools)
            ELSE IF v.t = "s" /\ IsIsoDt(v.v) THEN [ok |-> TRUE, s |-> FormatDt(f.fmt, IsoDt(v.v))]
            ELSE [ok |-> FALSE, s |-> <<>>]
      [] f.py = "decimal" ->
            \* a decimal needs a configured width (width 0 is outside the documented use: don't-care)
            IF v.t = "dec" /\ f.flen > 0 THEN [ok |-> TRUE, s |-> DecimalText(v.v, f.flen)] ELSE [ok |-> FALSE, s |-> <<>>]
      [] OTHER -> IF v.t = "s" THEN [ok |-> TRUE, s |-> v.v] ELSE [ok |-> FALSE, s |-> <<>>]

\* the bytes of one element: k = "ok" | "over" (variable value longer than the prefix can count: must be refused)
\*                               | "undef" (outside the documented layout: don't-care)
FieldBytes(f, v) ==
    LET pl == PrefixLen(f) IN
    IF v.t = "b"
    THEN IF pl = 0 THEN (IF Len(v.v) = f.flen THEN [k |-> "ok", b |-> v.v] ELSE [k |-> "undef", b |-> <<>>])
         ELSE IF Len(v.v) > MaxCount(pl) THEN [k |-> "over", b |-> <<>>]
         ELSE [k |-> "ok", b |-> EncodeText(ZDigits(Len(v.v), pl)) \o v.v]
    ELSE LET t == TextOf(f, v) IN
         IF ~t.ok THEN [k |-> "undef", b |-> <<>>]
         \* text with a character the code page cannot express: "text in the chosen encoding" does not exist
         ELSE IF ~EncodeOk(t.s) THEN [k |-> "unenc", b |-> <<>>]
         ELSE IF pl = 0
              THEN IF Len(t.s) > f.flen THEN [k |-> "undef", b |-> <<>>]
                   ELSE [k |-> "ok", b |-> EncodeText(PadRight(t.s, f.flen, 32))]
              ELSE IF Len(t.s) > MaxCount(pl) THEN [k |-> "over", b |-> <<>>]
                   ELSE [k |-> "ok", b |-> EncodeText(ZDigits(Len(t.s), pl) \o t.s)]

PdsItems(m) == PDS!SortItems(SetToSeq({[tag |-> k.s, val |-> m[k].v] : k \in {x \in DOMAIN m : x.kind = "PDS"}}))
\* the message after the PDS entries have been packed into the carrier elements
WithCarriers(m) ==
    LET packs == PDS!Pack(PdsItems(m))
    IN  IF Len(packs) > Len(Carriers) THEN [ok |-> FALSE, m |-> m]
        ELSE [ok |-> TRUE, m |-> PutAll(m, [i \in 1..Len(packs) |-> <<DE(Carriers[i]), V("s", packs[i])>>])]
PresentBits(m) == {n \in 2..128 : DE(n) \in DOMAIN m /\ NonEmpty(m[DE(n)])}

\* k = "ok" (b is THE encoding) | "over" / "unenc" (must be refused) | "undef"
Layout(m, hex) ==
    LET wc == WithCarriers(m)
        m2 == wc.m
        bits == PresentBits(m2)
        order == SelectSeq(Ix(128), LAMBDA n : n \in bits)
        fbs == TLCEval([i \in 1..Len(order) |-> IF Cfg[order[i]].ftype = "NONE" THEN [k |-> "undef", b |-> <<>>]
                                        ELSE FieldBytes(Cfg[order[i]], m2[DE(order[i])])])
        bm == BitmapOf(bits \cup {1})
        mtiok == MTIKEY \in DOMAIN m /\ m[MTIKEY].t = "s" /\ EncodeOk(m[MTIKEY].v) /\ Len(m[MTIKEY].v) = 4
    IN  IF \E i \in 1..Len(fbs) : fbs[i].k = "over" THEN [k |-> "over", b |-> <<>>]
        ELSE IF (\E i \in 1..Len(fbs) : fbs[i].k = "unenc") /\ (\A i \in 1..Len(fbs) : fbs[i].k # "undef") /\ wc.ok
             THEN [k |-> "unenc", b |-> <<>>]
        ELSE IF (\E i \in 1..Len(fbs) : fbs[i].k = "unenc") THEN [k |-> "undef", b |-> <<>>]
        ELSE IF ~wc.ok \/ ~mtiok \/ (\E i \in 1..Len(fbs) : fbs[i].k = "undef") THEN [k |-> "undef", b |-> <<>>]
        ELSE [k |-> "ok", b |-> TLCEval(EncodeText(m[MTIKEY].v) \o (IF hex THEN Hexlify(bm) ELSE bm)
                                        \o Cat([i \in 1..Len(fbs) |-> fbs[i].b]))]

(***************************************************************************)
(* READING (bytes -> dict)                                                 *)
(***************************************************************************)
Worse(a, b) == IF a = "bad" \/ b = "bad" THEN "bad" ELSE IF a = "lenient" \/ b = "lenient" THEN "lenient" ELSE "strict"

\* the typed value of decoded text under a field configuration: [st, v]
TypedValue(f, text) ==
    CASE f.py \in {"int", "long"} ->
            IF text # <<>> /\ AllDigits(text) THEN [st |-> "strict", v |-> V("i", StripZeros(text))]
            ELSE IF LenientInt(text).ok THEN [st |-> "lenient", v |-> ANY]
            ELSE [st |-> "bad", v |-> ANY]
      [] f.py = "decimal" ->
            IF PlainDecimal(text) THEN [st |-> "strict", v |-> V("dec", DecimalOf(text))]
            \* text that no numeral syntax could accept (a character outside digits, sign, point, exponent, underscore,
            \* white space and the letters of NaN / sNaN / Infinity) is not convertible: must be refused
            ELSE IF \E i \in 1..Len(text) : text[i] \notin DecimalChars THEN [st |-> "bad", v |-> ANY]
            ELSE [st |-> "lenient", v |-> ANY]
      [] f.py = "datetime" ->
            IF Len(text) = FmtW(f.fmt) /\ AllDigits(text)
            THEN LET p == ParseDt(f.fmt, text)
                 IN  IF p.ok THEN [st |-> "strict", v |-> V("dt", p.dt)] ELSE [st |-> "bad", v |-> ANY]
            ELSE [st |-> "lenient", v |-> ANY]
      [] OTHER -> [st |-> "strict", v |-> V("s", text)]

\* one element.  r = [st, ptr, d, wild]; ptr is 1-based into data
ReadField(r, bit, data) ==
    IF r.st = "bad" THEN r
    ELSE LET f == Cfg[bit]
             bad == [r EXCEPT !.st = "bad"]
         IN
    IF f.ftype = "NONE" THEN bad
    ELSE LET pl == PrefixLen(f) IN
    IF r.ptr + pl - 1 > Len(data) THEN bad
    ELSE LET pfxb == SubSeq(data, r.ptr, r.ptr + pl - 1)
             pfx  == IF DecodeOk(pfxb) THEN DecodeText(pfxb) ELSE <<>>
             li   == LenientInt(pfx)
             n    == IF pl = 0 THEN f.flen ELSE IF li.ok THEN NumVal(li.ds) ELSE 0
             pst  == IF pl = 0 \/ AllDigits(pfx) THEN "strict" ELSE "lenient"
         IN
    IF pl > 0 /\ (~DecodeOk(pfxb) \/ ~li.ok \/ (li.neg /\ ~AllZero(li.ds))) THEN bad
    ELSE IF r.ptr + pl + n - 1 > Len(data) THEN bad
    ELSE LET body == SubSeq(data, r.ptr + pl, r.ptr + pl + n - 1)
             nptr == r.ptr + pl + n
         IN
    IF f.proc = "ICC"
    THEN LET w == IccWalk(body)
             d1 == Put(Put(r.d, DE(bit), V("b", body)), K("ICC_DATA", 0, <<>>), V("s", Hexlify(body)))
         \* ICC data that is not a whole TLV sequence: don't-care for acceptance (C10 lists bad ICC content as a
         \* fault that may be refused); if accepted the TAG entries are not judged
         IN  [st |-> Worse(Worse(r.st, pst), IF w.strict THEN "strict" ELSE "lenient"), ptr |-> nptr, d |-> PutAll(d1, w.es),
              wild |-> IF w.strict THEN r.wild ELSE r.wild \cup {"TAG"}]
    ELSE IF ~DecodeOk(body) THEN bad
    ELSE LET text0 == DecodeText(body)
             short == f.proc = "PAN" /\ Len(text0) < 10
             text1 == CASE f.proc = "PAN" -> Mask(text0, 42)
                        [] f.proc = "PAN-PREFIX" -> SubSeq(text0, 1, Upto(9, Len(text0)))
                        [] OTHER -> text0
             tv == TypedValue(f, text1)
             val == IF short THEN ANY ELSE tv.v
             d1 == Put(r.d, DE(bit), val)
             pw == IF f.proc = "PDS" THEN PDS!Walk(text1) ELSE [st |-> "strict", items |-> <<>>]
             d2 == PutAll(d1, [i \in 1..Len(pw.items) |-> <<K("PDS", 0, pw.items[i].tag), V("s", pw.items[i].val)>>])
             d3 == IF f.proc = "DE43" /\ f.de43 THEN PutAll(d2, De43Split(text1)) ELSE d2
         IN  [st |-> Worse(Worse(r.st, pst), Worse(tv.st, pw.st)), ptr |-> nptr, d |-> d3,
              wild |-> IF pw.st = "lenient" THEN r.wild \cup {"PDS"} ELSE r.wild]

Reading(b, hex) ==
    LET hl == IF hex THEN 36 ELSE 20
        badr == [st |-> "bad", d |-> EmptyD, wild |-> {}]
    IN
    IF Len(b) < hl THEN badr
    ELSE LET mtib == SubSeq(b, 1, 4)
             bmraw == SubSeq(b, 5, hl)
         IN
    IF ~DecodeOk(mtib) \/ (hex /\ ~IsHex(bmraw)) THEN badr
    ELSE LET mti == DecodeText(mtib)
             mst == IF AllDigits(mti) THEN "strict" ELSE IF LenientInt(mti).ok THEN "lenient" ELSE "bad"
             bm == IF hex THEN Unhexlify(bmraw) ELSE bmraw
             hst == IF hex /\ bmraw # Hexlify(bm) THEN "lenient" ELSE "strict"      \* upper-case hex digits
             bits == BitSet(bm)
             b1st == IF 1 \in bits THEN "strict" ELSE "lenient"                    \* bit 1 off: don't-care
             data == SubSeq(b, hl + 1, Len(b))
             order == SelectSeq(Ix(128), LAMBDA n : n >= 2 /\ n \in bits)
             fin == FoldLeft(LAMBDA r, bit : ReadField(r, bit, data),
                             [st |-> Worse(mst, Worse(hst, b1st)), ptr |-> 1, d |-> Put(EmptyD, MTIKEY, V("s", mti)), wild |-> {}],
                             order)
         IN  IF fin.st = "bad" \/ fin.ptr # Len(data) + 1 THEN badr
             ELSE [st |-> fin.st, d |-> fin.d, wild |-> fin.wild]

\* does an observed dictionary agree with a reading
Agrees(od, r) ==
    LET judged(d) == {k \in DOMAIN d : k.kind \notin r.wild}
    IN  /\ judged(od) = judged(r.d)
        /\ \A k \in judged(od) : r.d[k] = ANY \/ od[k] = r.d[k]

\* verdict on one observed loads() outcome: "" = admissible, otherwise the name of the failing clause
\* obs = [kind, d]   kind \in {"ok", "liberr", "exc", "hang"}
LoadsVerdict(b, hex, obs) ==
    LET r == Reading(b, hex) IN
    \* neither a result nor the library's error (a foreign exception, a hang): C07's clause; on a message that had to be
    \* accepted it is at the same time a refusal (C02 / C08)
    IF obs.kind \notin {"ok", "liberr"}
    THEN (IF r.st = "strict" THEN "rejected-a-must-accept-with-outcome-class-" ELSE "outcome-class-") \o obs.kind
    ELSE IF r.st = "bad" THEN (IF obs.kind = "ok" THEN "accepted-a-must-reject" ELSE "")
    ELSE IF obs.kind = "liberr" THEN (IF r.st = "strict" THEN "rejected-a-must-accept" ELSE "")
    ELSE IF Agrees(obs.d, r) THEN "" ELSE "reading-differs"

\* the text of a value in a CSV cell written by the extraction tools (str() of the Python value)
CellText(v) == CASE v.t = "s" -> v.v
                 [] v.t = "i" -> v.v
                 [] v.t = "dt" -> IsoText(v.v)
                 [] OTHER -> <<>>
\* the cells of one output row: the configured output columns that the record carries, empty cells omitted
CsvCells(d, cols) ==
    LET keep == SelectSeq(cols, LAMBDA k : k \in DOMAIN d /\ d[k].t \in {"s", "i", "dt"} /\ CellText(d[k]) # <<>>)
    IN  FoldLeft(LAMBDA acc, k : Put(acc, k, V("s", CellText(d[k]))), EmptyD, keep)

\* C16: a clear card number (longer than 10 characters) appears nowhere in a returned dictionary
HasSub(hay, needle) == \E i \in 0..(Len(hay) - Len(needle)) : SubSeq(hay, i + 1, i + Len(needle)) = needle
Leaks(od, secret) == Len(secret) > 10 /\ \E k \in DOMAIN od : od[k].t \in {"s", "b", "i"} /\ HasSub(od[k].v, secret)

(***************************************************************************)
(* Well-formed messages (the precondition of the round-trip property) and  *)
(* what must come back.                                                    *)
(***************************************************************************)
WellFormedValue(f, v) ==
    LET pl == PrefixLen(f)
        t == TextOf(f, v)
    IN  /\ NonEmpty(v)
        /\ IF v.t = "b" THEN f.proc = "ICC" /\ pl > 0 /\ Len(v.v) <= MaxCount(pl) /\ IccWalk(v.v).strict
           ELSE /\ t.ok /\ EncodeOk(t.s) /\ f.proc # "ICC"
                /\ IF pl = 0 THEN Len(t.s) = f.flen ELSE Len(t.s) >= 1 /\ Len(t.s) <= MaxCount(pl)
                /\ f.py \in {"int", "long"} => v.t = "i"
                /\ f.py = "datetime" => DtRoundTrips(f.fmt, v.v)
                /\ f.py = "datetime" => FmtW(f.fmt) = (IF pl = 0 THEN f.flen ELSE FmtW(f.fmt))
                /\ f.proc = "PDS" => PDS!Walk(t.s).st = "strict"
                /\ (f.proc \in {"PAN", "PAN-PREFIX"} /\ f.py \in {"int", "long", "decimal", "datetime"}) => FALSE
WellFormed(m) ==
    LET wc == WithCarriers(m)
        pdskeys == {k \in DOMAIN m : k.kind = "PDS"}
    IN  /\ MTIKEY \in DOMAIN m /\ m[MTIKEY].t = "s" /\ Len(m[MTIKEY].v) = 4 /\ AllDigits(m[MTIKEY].v)
        /\ wc.ok
        /\ \A k \in pdskeys : /\ Len(k.s) = 4 /\ AllDigits(k.s) /\ m[k].t = "s" /\ Len(m[k].v) <= 992
                              /\ EncodeOk(m[k].v)
        \* a carrier element supplied directly next to PDS entries: it must lie behind the carriers the packing uses
        \* (those are overwritten) and may not repeat a tag of the PDS entries (the later carrier would win on reading)
        /\ pdskeys # {} =>
              LET np == Len(PDS!Pack(PdsItems(m))) IN
              \A i \in 1..Len(Carriers) : DE(Carriers[i]) \in DOMAIN m =>
                  /\ i > np
                  /\ m[DE(Carriers[i])].t = "s"
                  /\ LET its == PDS!Walk(m[DE(Carriers[i])].v).items
                     IN  \A j \in 1..Len(its) : K("PDS", 0, its[j].tag) \notin pdskeys
        /\ \A k \in DOMAIN m : k.kind \in {"MTI", "DE", "PDS"}
        /\ \A k \in DOMAIN m : k.kind = "DE" =>
              /\ k.n \in 2..128 /\ Cfg[k.n].ftype # "NONE"
              /\ WellFormedValue(Cfg[k.n], m[k])

\* what decoding the encoding must return for key k of a well-formed message
ExpectedValue(m, k) ==
    IF k.kind # "DE" THEN m[k]
    ELSE LET f == Cfg[k.n] v == m[k] IN
         CASE f.proc = "PAN" -> IF Len(v.v) >= 10 THEN V("s", Mask(v.v, 42)) ELSE ANY
           [] f.proc = "PAN-PREFIX" -> V("s", SubSeq(v.v, 1, Upto(9, Len(v.v))))
           [] OTHER -> v
\* keys that may appear in addition to the supplied ones
DerivedKey(m, k) == \/ k.kind \in {"TAG", "ICC_DATA", "DE43"}
                    \/ (k.kind = "PDS")
                    \/ (k.kind = "DE" /\ \E i \in 1..Len(Carriers) : Carriers[i] = k.n)
RoundTripVerdict(m, od) ==
    IF \E k \in DOMAIN m : k \notin DOMAIN od THEN "roundtrip-key-lost"
    ELSE IF \E k \in DOMAIN m : ExpectedValue(m, k) # ANY /\ od[k] # ExpectedValue(m, k) THEN "roundtrip-value-changed"
    ELSE IF \E k \in DOMAIN od : k \notin DOMAIN m /\ ~DerivedKey(m, k) THEN "roundtrip-extra-key"
    ELSE ""
=============================================================================
