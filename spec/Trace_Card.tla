----------------------------- MODULE Trace_Card -----------------------------
(* Trace validation of recorded calls of the pure card functions.  trace = [tid, events]; event = [op, s, c, out, kind, mode]
     "mask"     : s = number, c = mask character (one code point), kind "ok" -> out = result text
     "check"    : calculate_check_digit(s): out = result text
     "add"      : add_check_digit(s): out = result text
     "validate" : validate_check_digit(s) in interpreter mode `mode` ("normal" | "optimised"):
                  kind = "ok" (returned) | "assert" (AssertionError) | "exc" *)
EXTENDS TraceBatch, Card
VARIABLES tid, l, bad
tvars == <<tid, l, bad>>
Tr == Traces[tid]
Ev == Tr.events[l]
TInit == tid = 1 /\ l = 1 /\ bad = FALSE /\ RegInit
EndOfTrace == tid <= NTr /\ l > Len(Tr.events) /\ (IF bad THEN EndRejected ELSE Accept)
              /\ tid' = tid + 1 /\ l' = 1 /\ bad' = FALSE
Verdict(e) ==
    CASE e.op = "mask" ->
            IF Len(e.s) < 10 THEN ""                                   \* shorter numbers: outside the statement
            ELSE IF e.kind # "ok" THEN "mask-raised"
            ELSE IF e.out # MaskOf(e.s, e.c[1]) THEN "mask-result-differs" ELSE ""
      [] e.op = "check" ->
            IF e.kind # "ok" THEN "check-digit-raised"
            ELSE IF e.out # <<48 + CheckDigit(e.s)>> THEN "check-digit-differs" ELSE ""
      [] e.op = "add" ->
            IF e.kind # "ok" THEN "add-check-digit-raised"
            ELSE IF e.out # e.s \o <<48 + CheckDigit(e.s)>> THEN "add-check-digit-differs"
            ELSE IF ~Valid(e.out) THEN "appended-number-does-not-validate" ELSE ""
      [] e.op = "validate" ->
            IF Valid(e.s) THEN (IF e.kind # "ok" THEN "validate-rejected-a-valid-number-" \o e.mode ELSE "")
            ELSE (IF e.kind = "ok" THEN "validate-accepted-an-invalid-number-" \o e.mode
                  ELSE IF e.kind # "assert" THEN "validate-wrong-exception-" \o e.mode ELSE "")
      [] OTHER -> "unknown-op"
Step == /\ tid <= NTr /\ l <= Len(Tr.events)
        /\ LET v == Verdict(Ev) IN
             /\ (IF v # "" THEN RejectCont(Tr.tid, l, v) ELSE TRUE)
             /\ bad' = (bad \/ v # "")
        /\ l' = l + 1 /\ tid' = tid
TNext == EndOfTrace \/ Step
TSpec == TInit /\ [][TNext]_tvars
=============================================================================
