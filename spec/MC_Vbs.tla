------------------------------ MODULE MC_Vbs ------------------------------
(* Exhaustive instance of the VBS writer lifecycle + reader + truncation:
   histories  Write^{0..MaxRecs} ; (Close | Exit)^{1..MaxFin} ; [Truncate(k)]
   over records of every length 1..MaxLen made of cells that look like prefixes, terminators and fill.
   GuardSecondClose = FALSE reproduces the unguarded design (terminator written at offset 0 by a second close):
   TLC then produces the counterexample of defect D9. *)
EXTENDS Vbs
CONSTANTS MaxRecs, MaxFin, GuardSecondClose, Blk
VARIABLES w, recs, fin, cut
vars == <<w, recs, fin, cut>>
Alphabet == {0, PAD, 7}
\* record content: one of three shapes per length (all zero / all PAD / position-coded)
RecShapes(n) == { [i \in 1..n |-> 0], [i \in 1..n |-> PAD], [i \in 1..n |-> IF i % 2 = 0 THEN 7 ELSE i % 4] }
Init == w = WInit0 /\ recs = <<>> /\ fin = 0 /\ cut = -1
Write == /\ fin = 0 /\ Len(recs) < MaxRecs /\ cut = -1
         /\ \E n \in 1..MaxLen : \E r \in RecShapes(n) :
               /\ w' = WWrite(Blk, w, r)
               /\ recs' = Append(recs, r)
         /\ UNCHANGED <<fin, cut>>
\* close() and leaving the context manager are the same code path; both are "a finalisation"
Finalise == /\ fin < MaxFin /\ cut = -1
            /\ w' = IF GuardSecondClose /\ fin > 0 THEN w ELSE WClose(Blk, w)
            /\ fin' = fin + 1
            /\ UNCHANGED <<recs, cut>>
Truncate == /\ fin > 0 /\ cut = -1
            /\ \E k \in 0..Len(w.file) : cut' = k
            /\ UNCHANGED <<w, recs, fin>>
Next == Write \/ Finalise \/ Truncate
Spec == Init /\ [][Next]_vars

\* C03 / C11: once finalised, the file is the writer file of the records and reads back as exactly them
LayoutInv == fin > 0 => w.file \in WriterFiles(Blk, recs)
ReadBackInv == fin > 0 => ReadAll(StreamOf(Blk, w.file)) = [recs |-> recs, end |-> "terminator"]
\* C11: a later finalisation never changes what the first one completed
OnceProp == [][fin > 0 => w'.file = w.file]_vars
\* C09: a file cut at any offset reads as exactly the records wholly inside the surviving payload, then stops/errors
EndOff(i) == LET lens == [j \in 1..i |-> 4 + Len(recs[j])] IN FoldLeft(LAMBDA a, x : a + x, 0, lens)
Complete(k) == LET s == StreamOf(Blk, SubSeq(w.file, 1, k))
               IN  SubSeq(recs, 1, Cardinality({i \in 1..Len(recs) : EndOff(i) <= Len(s)}))
TruncInv == cut >= 0 =>
              LET r == ReadAll(StreamOf(Blk, SubSeq(w.file, 1, cut)))
              IN  /\ r.recs = Complete(cut)
                  /\ r.end \in {"terminator", "short-prefix", "short-record"}
                  /\ r.end = "terminator" => r.recs = recs
=============================================================================
