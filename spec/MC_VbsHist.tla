---------------------------- MODULE MC_VbsHist ----------------------------
(* MC_Vbs with a history variable: every behaviour Write* ; Finalise+ of the lifecycle model is printed as
   <<"B", Blk, hist>> (hist = sequence of <<"w", record>> / <<"close">> / <<"exit">>) so that the harness can
   replay it on the real VbsWriter and have the recorded trace validated by Trace_Vbs. *)
EXTENDS MC_Vbs
VARIABLE hist
HInit == Init /\ hist = <<>>
HWrite == Write /\ hist' = Append(hist, <<"w", recs'[Len(recs')]>>)
HFinalise == /\ Finalise
             /\ \E k \in {"close", "exit"} :
                  /\ hist' = Append(hist, <<k>>)
                  /\ PrintT(<<"B", Blk, hist'>>)
HNext == HWrite \/ HFinalise
HSpec == HInit /\ [][HNext]_<<vars, hist>>
=============================================================================
