CONSTANTS Threads = {1, 2}  Shared = TRUE
CONSTANT Items <- MCItems
SPECIFICATION LSpec
INVARIANT Isolation
CHECK_DEADLOCK FALSE
