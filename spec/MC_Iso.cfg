SPECIFICATION Spec
INVARIANT SpecAgrees
CHECK_DEADLOCK FALSE
