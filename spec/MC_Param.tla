------------------------------ MODULE MC_Param ------------------------------
(* Exhaustive check of the parameter-extract specification on files given as lists of logical rows: every sequence of
   up to MaxRows rows drawn from {index row for table A / B, index trailer, data row of table A / B (two payloads),
   junk}.  Each logical file is rendered in the expanded and in the compressed form. *)
EXTENDS ParamCore
CONSTANTS MaxRows
VARIABLES lrows
\* ---- a tiny instance of the layouts: two tables, two columns each (0-based half-open positions like config.py)
TA == <<73, 80, 48, 48, 52, 48, 84, 49>>      \* IP0040T1
TB == <<73, 80, 48, 48, 55, 53, 84, 49>>      \* IP0075T1
SubOf(t) == IF t = TA THEN <<48, 52, 48>> ELSE <<48, 55, 53>>
Cols(t) == IF t = TA THEN << [name |-> "a1", start |-> 19, end |-> 21], [name |-> "a2", start |-> 22, end |-> 25] >>
           ELSE << [name |-> "b1", start |-> 19, end |-> 20], [name |-> "b2", start |-> 20, end |-> 26] >>
Kinds == { [k |-> "idx", t |-> TA, p |-> 0], [k |-> "idx", t |-> TB, p |-> 0], [k |-> "trailer", t |-> TA, p |-> 0],
           [k |-> "data", t |-> TA, p |-> 1], [k |-> "data", t |-> TA, p |-> 2], [k |-> "data", t |-> TB, p |-> 1],
           [k |-> "junk", t |-> TA, p |-> 0] }
Payload(p) == [i \in 1..9 |-> 64 + p * 10 + i]
Ts10(p) == [i \in 1..10 |-> 48 + ((p + i) % 10)]
\* rendering of a logical row in the two forms
Render(lr, expanded) ==
    CASE lr.k = "idx" -> LET base == [i \in 1..246 |-> 32]
                         IN  [i \in 1..246 |-> IF i >= 12 /\ i <= 19 THEN KEY[i - 11]
                                               ELSE IF i >= 20 /\ i <= 27 THEN lr.t[i - 19]
                                               ELSE IF i >= 244 THEN SubOf(lr.t)[i - 243] ELSE base[i]]
      [] lr.k = "trailer" -> TRAILER \o <<32, 49>>
      [] lr.k = "junk" -> <<88, 88, 88>>
      [] OTHER -> IF expanded THEN Ts10(lr.p) \o <<65>> \o lr.t \o Payload(lr.p)
                  ELSE SubSeq(Ts10(lr.p), 1, 7) \o <<65>> \o SubOf(lr.t) \o Payload(lr.p)
Init == lrows = <<>>
Next == Len(lrows) < MaxRows /\ \E k \in Kinds : lrows' = Append(lrows, k)
Spec == Init /\ [][Next]_lrows
File(expanded) == [i \in 1..Len(lrows) |-> Render(lrows[i], expanded)]
HasTrailer == \E i \in 1..Len(lrows) : lrows[i].k = "trailer"
FirstTrailer == CHOOSE i \in 1..Len(lrows) : lrows[i].k = "trailer" /\ \A j \in 1..(i - 1) : lrows[j].k # "trailer"
\* a table can only be found through the index in the compressed form
Indexed(t) == \E i \in 1..FirstTrailer : lrows[i].k = "idx" /\ lrows[i].t = t
Want(t, expanded) == SelectSeq([i \in 1..(Len(lrows) - FirstTrailer) |-> lrows[FirstTrailer + i]],
                               LAMBDA lr : lr.k = "data" /\ lr.t = t /\ (expanded \/ Indexed(t)))
RefusalInv == \A x \in BOOLEAN, t \in {TA, TB} : (ExtractRows(File(x), t, x).kind = "liberr") <=> ~HasTrailer
RowsInv == HasTrailer => \A x \in BOOLEAN, t \in {TA, TB} :
              ExtractRows(File(x), t, x).rows = [i \in 1..Len(Want(t, x)) |-> Render(Want(t, x)[i], x)]
FormsAgreeInv == HasTrailer => \A t \in {TA, TB} : Indexed(t) =>
              LET ex == ExtractRows(File(TRUE), t, TRUE).rows
                  co == ExtractRows(File(FALSE), t, FALSE).rows
              IN  /\ Len(ex) = Len(co)
                  /\ \A i \in 1..Len(ex) : ColsOf(ex[i], Cols(t), TRUE) = ColsOf(co[i], Cols(t), FALSE)
=============================================================================
