----------------------------- MODULE MC_Framing -----------------------------
(* The decoder of Iso8583.tla as a step machine (one ReadField per flagged bit, running pointer, final length check),
   explored exhaustively over every data string up to MaxData symbols of a hazardous alphabet (digits, sign, space,
   underscore, a letter, an undecodable byte) behind every bitmap over the elements of a small configuration (exported
   by the harness).  At every step: the pointer equals 1 + the sum of the consumed spans, spans are contiguous and
   pairwise disjoint, every length is non-negative, every judged text value is the content of its own span; at the
   end the machine accepts exactly when the declarative Reading does (C08); every run terminates (C07). *)
EXTENDS Iso8583
CONSTANTS MaxData
VARIABLES data, todo, r, spans, phase
vars == <<data, todo, r, spans, phase>>
Alphabet == Consts.alphabet          \* Seq of byte values
Elems == Consts.elems                \* Seq of bit numbers that have a configuration here (plus one that has none)
Hdr(bits) == <<49, 49, 52, 52>> \o BitmapOf(bits \cup {1})
Init == /\ data = <<>> /\ phase = "build" /\ spans = <<>>
        /\ todo \in {SelectSeq(Elems, LAMBDA b : b \in S) : S \in SUBSET ToSet(Elems)}
        /\ r = [st |-> "strict", ptr |-> 1, d |-> Put(EmptyD, MTIKEY, V("s", <<49, 49, 52, 52>>)), wild |-> {}]
Build == /\ phase = "build"
         /\ \/ (Len(data) < MaxData /\ \E c \in ToSet(Alphabet) : data' = Append(data, c) /\ phase' = phase)
            \/ (data' = data /\ phase' = "run")
         /\ UNCHANGED <<todo, r, spans>>
Step == /\ phase = "run" /\ todo # <<>>
        /\ LET bit == Head(todo)
               nr == ReadField(r, bit, data)
           IN  /\ r' = nr
               /\ spans' = IF nr.st = "bad" THEN spans
                           ELSE Append(spans, [bit |-> bit, start |-> r.ptr, pl |-> PrefixLen(Cfg[bit]), end |-> nr.ptr - 1])
        /\ todo' = Tail(todo)
        /\ UNCHANGED <<data, phase>>
Finish == phase = "run" /\ todo = <<>> /\ phase' = "done" /\ UNCHANGED <<data, todo, r, spans>>
Next == Build \/ Step \/ Finish
Spec == Init /\ [][Next]_vars /\ WF_vars(Step) /\ WF_vars(Finish)

Live == r.st # "bad"
PtrInv == (phase # "build" /\ Live) =>
             /\ r.ptr = 1 + FoldLeft(LAMBDA a, s : a + (s.end - s.start + 1), 0, spans)
             /\ r.ptr <= Len(data) + 1
TileInv == (phase # "build" /\ Live) =>
             /\ \A i \in 1..Len(spans) : spans[i].end >= spans[i].start + spans[i].pl - 1      \* declared length >= 0
             /\ \A i \in 1..(Len(spans) - 1) : spans[i + 1].start = spans[i].end + 1           \* contiguous, no overlap
             /\ (spans # <<>> => spans[1].start = 1)
OwnBytesInv == (phase # "build" /\ Live) =>
             \A i \in 1..Len(spans) :
                LET s == spans[i] v == r.d[DE(s.bit)] IN
                   (v.t = "s" /\ Cfg[s.bit].proc = "none") => v.v = DecodeText(SubSeq(data, s.start + s.pl, s.end))
\* the machine accepts exactly when the declarative reading does (same bitmap)
DoneAgrees == phase = "done" =>
             \E bits \in {{s.bit : s \in ToSet(spans)}} :
                 (Live /\ r.ptr = Len(data) + 1) => Reading(Hdr(bits) \o data, FALSE).st # "bad"
\* every started decoding run ends
Terminates == (phase = "run") ~> (phase = "done")
=============================================================================
