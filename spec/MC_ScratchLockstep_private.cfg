CONSTANTS Threads = {1, 2}  Shared = FALSE
CONSTANT Items <- MCItems
SPECIFICATION LSpec
INVARIANT Isolation
PROPERTY LFinishes
CHECK_DEADLOCK FALSE
