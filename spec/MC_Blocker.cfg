CONSTANTS P = 5  T = 2  PAD = 0  MaxWrites = 5  MaxLen = 16
SPECIFICATION MCSpec
INVARIANT NoLossInv
INVARIANT FinalInv
INVARIANT OneShotInv
INVARIANT RemInv
PROPERTY SkelRefines
CHECK_DEADLOCK FALSE
