------------------------------ MODULE Inspect ------------------------------
(***************************************************************************)
(* File inspection (cardutil.mciipm.ipm_info): what must be reported for   *)
(* a file produced by the library's writer and for the invalid classes.    *)
(*                                                                         *)
(* observation = [valid, reason, blocked, family]                          *)
(*   valid   : isValidIPM                                                  *)
(*   reason  : a non-empty reason is given                                  *)
(*   blocked : "yes" | "no" | "absent"                                      *)
(*   family  : "ascii" | "ebcdic" | "other" | "absent"  (the reported       *)
(*             label projected by what it encodes the digits to)            *)
(* facts about the file known to the environment that built it:            *)
(*   writer (built by the Ipm writer from >= 1 well-formed message whose    *)
(*   bits are configured), blk, family.                                     *)
(***************************************************************************)
EXTENDS Iso8583, Vbs

FirstLen(f) == IF f[1] # 0 THEN -1 ELSE f[2] * 65536 + f[3] * 256 + f[4]      \* -1: >= 2^24
UnconfiguredBit(f) == \E b \in BitSet(SubSeq(f, 9, 24)) : b >= 2 /\ Cfg[b].ftype = "NONE"
\* the invalid classes of the statement (evaluated on the head of the file; flen = its full length)
InvalidClass(head, flen) ==
    IF flen < 24 THEN "too-short"
    ELSE IF FirstLen(head) = -1 \/ FirstLen(head) > MaxLen THEN "first-length-above-maximum"
    ELSE IF UnconfiguredBit(head) THEN "unconfigured-bit"
    ELSE ""
\* verdict: "" admissible, otherwise the failing clause
InfoVerdict(head, flen, facts, obs) ==
    LET ic == InvalidClass(head, flen) IN
    IF ic # "" THEN (IF obs.valid THEN "reported-valid-" \o ic
                     ELSE IF ~obs.reason THEN "invalid-without-reason-" \o ic ELSE "")
    ELSE IF ~facts.writer THEN ""
    ELSE IF ~obs.valid THEN "writer-file-reported-invalid"
    ELSE IF obs.family # facts.family THEN "wrong-encoding-family"
    ELSE IF facts.blk THEN (IF obs.blocked # "yes" THEN "blocked-file-not-reported-blocked" ELSE "")
    ELSE \* unblocked: must be reported unblocked unless bytes 1012-1013 (0-based) are both 0x40
         IF flen >= P + T /\ head[P + 1] = PAD /\ head[P + 2] = PAD THEN ""
         ELSE IF obs.blocked # "no" THEN "unblocked-file-reported-blocked" ELSE ""

(***************************************************************************)
(* The implemented probe before its repair (a sample of S bytes, trailer   *)
(* tests only at sample sizes exactly one or two blocks), kept to let TLC  *)
(* exhibit the design-level counterexample of defect D13                   *)
(* (MC_Inspect: any blocked file of three or more blocks).                 *)
(***************************************************************************)
OldProbeBlocked(flen, S) ==
    LET n == IF flen < S THEN flen ELSE S IN
    IF n < P + T THEN FALSE
    ELSE (n = P + T) \/ (n = 2 * (P + T))          \* trailers of a writer file are PAD
\* the repaired probe: second trailer looked at whenever the sample reaches it
NewProbeBlocked(flen, S) ==
    LET n == IF flen < S THEN flen ELSE S IN
    IF n < P + T THEN FALSE
    ELSE IF n < 2 * (P + T) THEN n = P + T
    ELSE TRUE
=============================================================================
