---------------------------- MODULE UnblockEnum ----------------------------
(* Fault enumeration for the validating one-shot unblocker: a writer-shaped file of K blocks, cut at every length
   0..K(P+T), with every value 0..255 in every trailer cell, and with BOTH trailer cells of a block replaced (every
   equal pair, every pair over PairVals).  For each case TLC evaluates the cell-level
   definition WellBlocked on the faulted file and prints the required outcome class. *)
EXTENDS Blocks
CONSTANTS K, Slack,     \* K blocks, the last one holding P - Slack data cells
          PairVals      \* values whose every ordered pair replaces a whole trailer
VARIABLE c
Base == Blocks([i \in 1..(K * P - Slack) |-> 1], K)
Cases == { <<"cut", n, 0, 0>> : n \in 0..(K * (P + T)) }
         \cup { <<"trailer", j, t, v>> : j \in 1..K, t \in 1..T, v \in 0..255 }
         \cup { <<"pair", j, v, v>> : j \in 1..K, v \in 0..255 }
         \cup { <<"pair", j, v, w>> : j \in 1..K, v \in PairVals, w \in PairVals }
Faulted(case) == IF case[1] = "cut" THEN SubSeq(Base, 1, case[2])
                 ELSE IF case[1] = "pair"
                 THEN [Base EXCEPT ![(case[2] - 1) * (P + T) + P + 1] = case[3], ![(case[2] - 1) * (P + T) + P + 2] = case[4]]
                 ELSE [Base EXCEPT ![(case[2] - 1) * (P + T) + P + case[3]] = case[4]]
Expected(case) == IF WellBlocked(Faulted(case)) THEN "ok" ELSE "liberr"
Init == \E case \in Cases : c = case /\ PrintT(<<"T", case[1], case[2], case[3], case[4], Expected(case)>>)
Next == FALSE /\ c' = c
Spec == Init /\ [][Next]_c
\* a well-blocked fault-free file unblocks to its data followed by fill only
RoundInv == (c[1] = "cut" /\ c[2] = K * (P + T)) =>
               IsDataThenFill(Payload(Faulted(c)), [i \in 1..(K * P - Slack) |-> 1])
=============================================================================
