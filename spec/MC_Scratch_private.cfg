CONSTANTS Threads = {1, 2, 3}  Shared = FALSE
CONSTANT Items <- MCItems
SPECIFICATION Spec
INVARIANT Isolation
PROPERTY Finishes
CHECK_DEADLOCK FALSE
