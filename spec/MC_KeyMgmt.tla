----------------------------- MODULE MC_KeyMgmt -----------------------------
(* Combining key components is their XOR: independent of order, a component given twice cancels.  Checked over every
   list of up to MaxParts components drawn from a small universe of 16-byte values. *)
EXTENDS PinBlock
CONSTANTS MaxParts
VARIABLES parts
U == { [i \in 1..16 |-> 0], [i \in 1..16 |-> 255], [i \in 1..16 |-> (i * 37) % 256], [i \in 1..16 |-> IF i % 2 = 0 THEN 170 ELSE 85] }
Init == parts = <<>>
Next == Len(parts) < MaxParts /\ \E p \in U : parts' = Append(parts, p)
Spec == Init /\ [][Next]_parts
OrderInv == Len(parts) >= 2 => /\ Combine(Reverse(parts)) = Combine(parts)
                              /\ Combine(Tail(parts) \o <<Head(parts)>>) = Combine(parts)
CancelInv == \A p \in U : Combine(parts \o <<p, p>>) = Combine(parts)
=============================================================================
