----------------------------- MODULE Trace_Iso -----------------------------
(* Trace validation of recorded dumps / loads calls against Iso8583.tla.  One TLC state per recorded call.

   batch.consts = [cfg, dec]; trace = [tid, hex, events]
   event = [op, m, bytes, kind, d, rt, secret]
     op "dumps": m = message entries [k, v]; kind = "ok" (bytes = result) | "exc" | "liberr" | "hang"
     op "loads": bytes = argument; kind = "ok" (d = result entries) | "liberr" | "exc" | "hang";
                 rt = TRUE when the bytes are the result of the preceding dumps of this trace (round trip judged)
                 secret = a clear card number carried by an element configured for masking (<<>> if none):
                          it must not appear anywhere in the returned dictionary
   Clause names say which requirement failed; the harness maps clauses to properties. *)
EXTENDS Iso8583
VARIABLES tid, l, lastm, lastwf, bad
tvars == <<tid, l, lastm, lastwf, bad>>

Tr == Traces[tid]
Ev == Tr.events[l]
ToDict(es) == FoldLeft(LAMBDA acc, e : Put(acc, e.k, e.v), EmptyD, es)
NextTrace == tid' = tid + 1 /\ l' = 1 /\ lastm' = EmptyD /\ lastwf' = FALSE /\ bad' = FALSE
TInit == tid = 1 /\ l = 1 /\ lastm = EmptyD /\ lastwf = FALSE /\ bad = FALSE /\ RegInit
\* every clause is judged on every event; a trace with any rejected clause is not accepted
EndOfTrace == tid <= NTr /\ l > Len(Tr.events) /\ (IF bad THEN EndRejected ELSE Accept) /\ NextTrace

DumpsVerdict(m, hex, kind, bytes) ==
    LET L == Layout(m, hex) IN
    IF kind = "hang" THEN "outcome-class-hang"
    ELSE CASE L.k = "ok"   -> IF kind # "ok" THEN "dumps-refused-a-representable-message"
                              ELSE IF bytes # L.b THEN "layout-bytes-differ" ELSE ""
           [] L.k = "over" -> IF kind = "ok" THEN "dumps-emitted-an-overlength-value" ELSE ""
           [] L.k = "unenc" -> IF kind = "ok" THEN "dumps-emitted-text-outside-the-code-page" ELSE ""
           [] OTHER        -> ""

EvDumps == /\ Ev.op = "dumps"
           /\ LET m == ToDict(Ev.m)
                  v == DumpsVerdict(m, Tr.hex, Ev.kind, Ev.bytes)
              IN  /\ (IF v # "" THEN RejectCont(Tr.tid, l, v) ELSE TRUE)
                  /\ bad' = (bad \/ v # "")
                  /\ l' = l + 1 /\ tid' = tid /\ lastm' = m /\ lastwf' = (Ev.kind = "ok" /\ WellFormed(m))

EvLoads == /\ Ev.op = "loads"
           /\ LET od == ToDict(Ev.d)
                  v == LoadsVerdict(Ev.bytes, Tr.hex, [kind |-> Ev.kind, d |-> od])
                  rt == IF Ev.rt /\ lastwf
                        THEN (IF Ev.kind # "ok" THEN "roundtrip-decode-refused" ELSE RoundTripVerdict(lastm, od))
                        ELSE ""
                  leak == Ev.kind = "ok" /\ Leaks(od, Ev.secret)
              IN  /\ (IF v # "" THEN RejectCont(Tr.tid, l, v) ELSE TRUE)
                  /\ (IF rt # "" THEN RejectCont(Tr.tid, l, rt) ELSE TRUE)
                  /\ (IF leak THEN RejectCont(Tr.tid, l, "clear-pan-in-result") ELSE TRUE)
                  /\ bad' = (bad \/ v # "" \/ rt # "" \/ leak)
                  /\ l' = l + 1 /\ tid' = tid /\ UNCHANGED <<lastm, lastwf>>

Step == tid <= NTr /\ l <= Len(Tr.events) /\ (EvDumps \/ EvLoads)
TNext == EndOfTrace \/ Step
TSpec == TInit /\ [][TNext]_tvars
=============================================================================
