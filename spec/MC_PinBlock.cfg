CONSTANT MaxFull = 6
SPECIFICATION Spec
INVARIANT BlockInv
INVARIANT DecInv
CHECK_DEADLOCK FALSE
