------------------------------ MODULE IpmMulti ------------------------------
(* Schedules of several reader / writer instances used at the same time on different files: every interleaving of
   the instances' programs (Prog[i] = number of steps of instance i).  Each complete schedule is printed as
   <<"B", schedule>> (the sequence of instance numbers) and replayed by the harness on real instances that are all
   created up front; the recorded execution is validated by Trace_Ipm, where every instance is judged against its own
   specification state - the projection of the interleaved behaviour on an instance must be its solo behaviour. *)
EXTENDS Integers, Sequences, TLC
CONSTANTS N1, N2, N3, N4     \* step counts of the four instances
Prog == <<N1, N2, N3, N4>>
VARIABLES pc, sched
Init == pc = [i \in 1..Len(Prog) |-> 0] /\ sched = <<>>
Step(i) == /\ pc[i] < Prog[i]
           /\ pc' = [pc EXCEPT ![i] = @ + 1]
           /\ sched' = Append(sched, i)
           /\ (IF \A j \in 1..Len(Prog) : pc'[j] = Prog[j] THEN PrintT(<<"B", sched'>>) ELSE TRUE)
Next == \E i \in 1..Len(Prog) : Step(i)
Spec == Init /\ [][Next]_<<pc, sched>>
\* the projection of any schedule on an instance is that instance's program order (by construction of pc)
ProjInv == \A i \in 1..Len(Prog) : pc[i] = Len(SelectSeq(sched, LAMBDA x : x = i))
=============================================================================
