SPECIFICATION TSpec
POSTCONDITION AllAccepted
CHECK_DEADLOCK FALSE
