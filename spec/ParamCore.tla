----------------------------- MODULE ParamCore -----------------------------
(* Codec- and configuration-independent core of the parameter extract specification (shared by Param.tla, which binds
   it to the batch constants, and MC_Param.tla, which explores it exhaustively). Rows are Seq(code point). *)
EXTENDS Bytes

\* Python slice s[a:b] (0-based, half-open, clamped)
Slice(s, a, b) == LET lo == IF a < 0 THEN 0 ELSE a
                      hi == IF b > Len(s) THEN Len(s) ELSE b
                  IN  IF hi <= lo THEN <<>> ELSE SubSeq(s, lo + 1, hi)
KEY == <<73, 80, 48, 48, 48, 48, 84, 49>>                                   \* "IP0000T1"
TRAILER == <<84, 82, 65, 73, 76, 69, 82, 32, 82, 69, 67, 79, 82, 68, 32>> \o KEY   \* "TRAILER RECORD IP0000T1"
IsPrefixSeq(p, s) == Len(p) <= Len(s) /\ SubSeq(s, 1, Len(p)) = p

\* index phase: rows up to and including the trailer; [found, idx (function sub-id -> table id), next row]
RECURSIVE IndexFrom(_, _, _)
IndexFrom(rows, i, idx) ==
    IF i > Len(rows) THEN [found |-> FALSE, idx |-> idx, next |-> i]
    ELSE LET r == rows[i]
             idx2 == IF Slice(r, 11, 19) = KEY THEN (Slice(r, 243, 246) :> Slice(r, 19, 27)) @@ idx ELSE idx
         IN  IF IsPrefixSeq(TRAILER, r) THEN [found |-> TRUE, idx |-> idx2, next |-> i + 1]
             ELSE IndexFrom(rows, i + 1, idx2)
EmptyIdx == [x \in {} |-> <<>>]

RowTable(r, idx, expanded) ==
    IF expanded THEN Slice(r, 11, 19)
    ELSE LET sub == Slice(r, 8, 11) IN IF sub \in DOMAIN idx THEN idx[sub] ELSE <<>>
\* the configured columns of a row: set of <<name, text>>; cols = Seq of [name, start, end]
ColsOf(r, cols, expanded) == LET off == IF expanded THEN 0 ELSE -8
                             IN  { <<cols[i].name, Slice(r, cols[i].start + off, cols[i].end + off)>> : i \in 1..Len(cols) }
\* the rows of table tid: [kind, rows]
ExtractRows(rows, tid, expanded) ==
    LET ix == IndexFrom(rows, 1, EmptyIdx)
    IN  IF ~ix.found THEN [kind |-> "liberr", rows |-> <<>>]
        ELSE [kind |-> "rows",
              rows |-> SelectSeq([i \in 1..(Len(rows) - ix.next + 1) |-> rows[ix.next + i - 1]],
                                 LAMBDA r : RowTable(r, ix.idx, expanded) = tid)]
=============================================================================
