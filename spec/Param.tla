------------------------------- MODULE Param -------------------------------
(***************************************************************************)
(* Mastercard parameter extract files (cardutil.mciipm.IpmParamReader):    *)
(* a VBS (optionally 1014-blocked) file of text records:                   *)
(*    index rows  (key IP0000T1 at 11..19: sub-id at 243..246 -> table id   *)
(*                 at 19..27), then the index trailer row,                  *)
(*    data rows of several tables, expanded (timestamp 0..10, active 10,    *)
(*                 table id 11..19) or compressed (timestamp 0..7, active   *)
(*                 7, sub-id 8..11; all columns shifted by -8).             *)
(* Positions are 0-based half-open as in the table layouts of config.py.   *)
(* Consts: dec (codec A), dec2 (codec B, for the conversion tools),        *)
(*         tables = Seq of [id, cols = Seq of [name, start, end]].         *)
(***************************************************************************)
EXTENDS ParamCore, TraceBatch, Vbs

Consts == Batch.consts
Dec == Consts.dec
Dec2 == Consts.dec2
Tables == Consts.tables
DecodeOk(bs) == \A i \in 1..Len(bs) : Dec[bs[i] + 1] # -1
DecodeText(bs) == TLCEval([i \in 1..Len(bs) |-> Dec[bs[i] + 1]])
CpSet2 == {Dec2[i] : i \in 1..256} \ {-1}
Enc2 == TLCEval([cp \in CpSet2 |-> CHOOSE b \in 0..255 : Dec2[b + 1] = cp])
\* the conversion tools: each record decoded under A and encoded under B
Reencode(bs) == TLCEval([i \in 1..Len(bs) |-> Enc2[Dec[bs[i] + 1]]])
ReencodeOk(bs) == \A i \in 1..Len(bs) : Dec[bs[i] + 1] # -1 /\ Dec[bs[i] + 1] \in CpSet2

TableCfg(id) == LET hit == SelectSeq(Tables, LAMBDA t : t.id = id) IN IF hit = <<>> THEN <<>> ELSE hit[1].cols
HasTable(id) == \E i \in 1..Len(Tables) : Tables[i].id = id

\* the row dictionary required for a data row (as a set of <<name, text>>)
RowDict(r, tid, expanded) ==
    { <<"table_id", tid>>,
      <<"effective_timestamp", IF expanded THEN Slice(r, 0, 10) ELSE Slice(r, 0, 7)>>,
      <<"active_inactive_code", IF expanded THEN Slice(r, 10, 11) ELSE Slice(r, 7, 8)>> }
    \cup ColsOf(r, TableCfg(tid), expanded)

\* everything the reader must yield for table tid: [kind, rows]   kind = "rows" | "liberr"
Extract(file, blk, tid, expanded) ==
    LET recs == ReadAll(StreamOf(blk, file)).recs
        rows == [i \in 1..Len(recs) |-> DecodeText(recs[i])]
        e == ExtractRows(rows, tid, expanded)
    IN  IF ~HasTable(tid) \/ e.kind = "liberr" THEN [kind |-> "liberr", rows |-> <<>>]
        ELSE [kind |-> "rows", rows |-> [i \in 1..Len(e.rows) |-> RowDict(e.rows[i], tid, expanded)]]
=============================================================================
