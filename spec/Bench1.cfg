INIT Init
NEXT Next
INVARIANT Inv5
CHECK_DEADLOCK FALSE
