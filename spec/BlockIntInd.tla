---------------------------- MODULE BlockIntInd ----------------------------
(* Inductive invariant of the integer skeleton of the streaming blocker at real size (PP = 1012, TT = 2) for write
   lengths ranging over ALL naturals and histories of ANY length - discharged by Apalache (typed), thorough tier of C04:
       Init => IndInv                      (apalache-mc check --init=Init --inv=IndInv --length=0)
       IndInv /\ Next => IndInv' /\ FinalLen'   (apalache-mc check --init=IndInit --inv=Inv --length=1)
   ApaWrite is the same step function as Blocks!IntWrite; BlockInt.tla (TLC, every (a, n) at P = 1012) checks that the
   two agree (invariant ApaAgrees). *)
EXTENDS Integers
PP == 1012
TT == 2
VARIABLES
  \* @type: Int;
  data,
  \* @type: Int;
  rem,
  \* @type: Int;
  flen
\* @type: (Int, Int, Int, Int) => <<Int, Int, Int>>;
ApaWrite(d, r, f, n) ==
    IF n < r THEN <<d + n, r - n, f + n>>
    ELSE LET rest0 == n - r
             full == IF rest0 = 0 THEN 0 ELSE (rest0 - 1) \div PP
             last == rest0 - full * PP
         IN  <<d + n, PP - last, f + r + TT + full * (PP + TT) + last>>
Init == data = 0 /\ rem = PP /\ flen = 0
Write == \E n \in Nat : LET w == ApaWrite(data, rem, flen, n) IN data' = w[1] /\ rem' = w[2] /\ flen' = w[3]
Next == Write
IndInv == /\ data >= 0 /\ rem >= 0 /\ rem <= PP /\ flen >= 0
          /\ \/ (rem >= 1 /\ rem < PP /\ data % PP = PP - rem /\ flen = (data \div PP) * (PP + TT) + (PP - rem))
             \/ (rem = 0 /\ data > 0 /\ data % PP = 0 /\ flen = (data \div PP) * (PP + TT) - TT)
             \/ (rem = PP /\ data % PP = 0 /\ flen = (data \div PP) * (PP + TT))
\* after finalisation the file is a whole number of blocks, the least possible or one more (at most one all-fill block)
FinalLen == /\ (flen + rem + TT) % (PP + TT) = 0
            /\ (flen + rem + TT) \div (PP + TT) <= (data + PP - 1) \div PP + 1
            /\ (flen + rem + TT) \div (PP + TT) >= (data + PP - 1) \div PP
IndInit == data \in Int /\ rem \in Int /\ flen \in Int /\ IndInv
Inv == IndInv /\ FinalLen
=============================================================================
