------------------------------- MODULE Vbs -------------------------------
(***************************************************************************)
(* VBS framing (cardutil.mciipm.VbsWriter / VbsReader and the list/bytes   *)
(* convenience functions), optionally carried in 1014 blocks.              *)
(*                                                                         *)
(*   Frame(recs)  = U32(|r1|) r1 ... U32(|rn|) rn U32(0)                   *)
(*   blocked file \in Finals(Frame(recs))                                  *)
(*                                                                         *)
(* Reader: ReadAt classifies what stands at an offset of the byte stream;  *)
(* NextAllowed turns that into the set of admissible outcomes of one       *)
(* __next__ call (DESIGN R2: sets, not single values).                     *)
(* Writer: implementation-shaped lifecycle with an explicit file position  *)
(* (Write, Close, seek(0) through the blocker) for C11.                    *)
(***************************************************************************)
EXTENDS Blocks

CONSTANT MaxLen       \* MAX_VBS_RECORD_LENGTH from config.py (6000); assumed < 2^24

U32(n) == <<n \div 16777216, (n \div 65536) % 256, (n \div 256) % 256, n % 256>>
Flatten(ss) == TLCEval(FoldLeft(LAMBDA acc, s : acc \o s, <<>>, ss))
Frame(recs) == Flatten([i \in 1..Len(recs) |-> U32(Len(recs[i])) \o recs[i]]) \o U32(0)
StreamOf(blk, f) == IF blk THEN Payload(f) ELSE f
IsPrefixOf(a, b) == Len(a) <= Len(b) /\ SubSeq(b, 1, Len(a)) = a

(***************************************************************************)
(* Reader                                                                  *)
(***************************************************************************)
ReadAt(stream, p) ==
    LET remn == Len(stream) - p IN
    IF remn < 4 THEN [k |-> "short-prefix", rec |-> <<>>, next |-> p, pfx |-> SubSeq(stream, p + 1, Len(stream))]
    ELSE LET b == SubSeq(stream, p + 1, p + 4)
             huge == b[1] # 0
             n == IF huge THEN -1 ELSE b[2] * 65536 + b[3] * 256 + b[4]
         IN  IF huge \/ n > MaxLen THEN [k |-> "oversize", rec |-> <<>>, next |-> p, pfx |-> b]
             ELSE IF n = 0 THEN [k |-> "terminator", rec |-> <<>>, next |-> p + 4, pfx |-> b]
             ELSE IF remn - 4 < n THEN [k |-> "short-record", rec |-> SubSeq(stream, p + 5, Len(stream)), next |-> p, pfx |-> b]
             ELSE [k |-> "record", rec |-> SubSeq(stream, p + 5, p + 4 + n), next |-> p + 4 + n, pfx |-> b]

\* admissible outcome kinds of one __next__ call at offset p.
\* strict = the reading of C07/C10 (a record that cannot be framed raises); ~strict = C09 (ends or raises)
NextKinds(stream, p, strict) ==
    LET a == ReadAt(stream, p) IN
    CASE a.k = "record"       -> {"rec"}
      [] a.k = "terminator"   -> {"stop"}
      [] a.k = "short-prefix" -> {"stop", "liberr"}
      [] a.k = "oversize"     -> {"liberr"}
      [] a.k = "short-record" -> IF strict THEN {"liberr"} ELSE {"stop", "liberr"}

\* error location (C10): record number k and "the raw bytes of that record including its length prefix
\* (or the bytes that could be read of it)"
CtxOk(stream, p, ctx) == LET a == ReadAt(stream, p) IN
    /\ IsPrefixOf(a.pfx, ctx)
    /\ IsPrefixOf(ctx, SubSeq(stream, p + 1, Len(stream)))
    \* a record cut short: the bytes that could be read of it are ALL the remaining bytes
    /\ (a.k = "short-record" => ctx = SubSeq(stream, p + 1, Len(stream)))

\* the whole reading: records then the terminal classification (used by invariants)
RECURSIVE ReadAllFrom(_, _, _)
ReadAllFrom(stream, p, acc) ==
    LET a == ReadAt(stream, p) IN
    IF a.k = "record" THEN ReadAllFrom(stream, a.next, Append(acc, a.rec))
    ELSE [recs |-> acc, end |-> a.k]
ReadAll(stream) == ReadAllFrom(stream, 0, <<>>)

(***************************************************************************)
(* Writer lifecycle, implementation-shaped.  w = [file, pos, rem]          *)
(***************************************************************************)
FileWrite(f, p, b) ==
    IF b = <<>> THEN f
    ELSE TLCEval([i \in 1..(IF Len(f) > p + Len(b) THEN Len(f) ELSE p + Len(b)) |->
                    IF i > p /\ i <= p + Len(b) THEN b[i - p] ELSE IF i <= Len(f) THEN f[i] ELSE 0])

OutWrite(blk, w, b) ==
    IF blk THEN LET e == EmitWrite(w.rem, b)
                IN  [file |-> FileWrite(w.file, w.pos, e.out), pos |-> w.pos + Len(e.out), rem |-> e.rem]
    ELSE [file |-> FileWrite(w.file, w.pos, b), pos |-> w.pos + Len(b), rem |-> w.rem]
\* out_file.seek(0): the blocker finalises (pads) first, then the wrapped file is rewound
OutSeek0(blk, w) ==
    IF blk THEN LET e == EmitFinal(w.rem)
                IN  [file |-> FileWrite(w.file, w.pos, e.out), pos |-> 0, rem |-> e.rem]
    ELSE [w EXCEPT !.pos = 0]
WInit0 == [file |-> <<>>, pos |-> 0, rem |-> P]
\* VbsWriter.write(r): length prefix then data, two writes on out_file
WWrite(blk, w, r) == OutWrite(blk, OutWrite(blk, w, U32(Len(r))), r)
\* VbsWriter.close(): zero length then rewind
WClose(blk, w) == OutSeek0(blk, OutWrite(blk, w, U32(0)))

\* the admissible finalised files for the records written
WriterFiles(blk, recs) == IF blk THEN Finals(Frame(recs)) ELSE {Frame(recs)}
=============================================================================
