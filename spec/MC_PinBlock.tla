----------------------------- MODULE MC_PinBlock -----------------------------
(* Exhaustive checks of the PIN block and PVV decimalisation specification (no cipher involved):
   every PIN length 4..12 with digits from {0, 5, 9} at each position up to MaxFull digits (three patterns per longer
   length) x PAN lengths 13..19: the PIN read back from format 0 / 4 is the PIN, shapes (control nibble, length
   nibble, fill) are as stated; decimalisation always yields four decimal digits and keeps order. *)
EXTENDS PinBlock
CONSTANTS MaxFull
VARIABLES pin, done
Init == pin = <<>> /\ done = FALSE
Next == /\ ~done
        /\ \/ (Len(pin) < 12 /\ \E d \in (IF Len(pin) < MaxFull THEN {0, 5, 9} ELSE {(Len(pin) * 7) % 10}) :
                   pin' = Append(pin, d) /\ done' = FALSE)
           \/ (Len(pin) >= 4 /\ done' = TRUE /\ pin' = pin)
Spec == Init /\ [][Next]_<<pin, done>>
PanOf(n) == [i \in 1..n |-> (i * 3 + n) % 10]
Rnd == <<1, 2, 3, 4, 5, 6, 7, 8, 9, 10, 11, 12, 13, 14, 15, 0>>
BlockInv == done => \A n \in 13..19 :
    LET pan == PanOf(n)
        b0 == Iso0(pin, pan)
        b4 == Iso4(pin, Rnd)
    IN  /\ Len(b0) = 8 /\ Len(b4) = 16
        /\ PinOf0(b0, pan) = pin
        /\ PinOf4(b4) = pin
        /\ Nibbles(b4)[1] = 4 /\ Nibbles(b4)[2] = Len(pin)
        /\ \A i \in (3 + Len(pin))..16 : Nibbles(b4)[i] = 10
        /\ SubSeq(Nibbles(b4), 17, 32) = Rnd
        /\ Nibbles(b0)[1] = 0 /\ Nibbles(b0)[2] = Len(pin)
\* decimalisation over every 16-nibble string with letters placed at the front (the second scan supplies 0..4 digits)
DecInv == done => \A k \in 0..16 :
    LET ns == [i \in 1..16 |-> IF i <= k THEN 10 + (i % 6) ELSE (i + Len(pin)) % 10]
        d == Decimalise(ns)
    IN  /\ Len(d) = 4 /\ \A i \in 1..4 : d[i] \in 0..9
        /\ (16 - k >= 4 => d = SubSeq(SelectSeq(ns, LAMBDA n : n < 10), 1, 4))
=============================================================================
