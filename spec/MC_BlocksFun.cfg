CONSTANTS P = 3 T = 2 PAD = 0 MaxData = 8
SPECIFICATION Spec
INVARIANT InvertInv
INVARIANT CutInv
INVARIANT TrailerInv
CHECK_DEADLOCK FALSE
