----------------------------- MODULE Trace_Param -----------------------------
(* trace = [tid, op, blk, file, table, expanded, kind, rows, out]
   op "extract": IpmParamReader / mci_ipm_param_to_csv over `file`: kind = "rows" (rows = Seq of Seq of [name, text])
                 | "liberr" | "exc"
   op "convert": parameter conversion tool A -> B: out = output file bytes; must be a writer file (blkout) of the
                 re-encoded records of the input *)
EXTENDS Param
VARIABLES tid
Tr == Traces[tid]
RowSet(row) == {<<row[i].name, row[i].text>> : i \in 1..Len(row)}
Verdict(t) ==
    IF t.op = "extract"
    THEN LET e == Extract(t.file, t.blk, t.table, t.expanded) IN
         IF t.kind \notin {"rows", "liberr"} THEN "outcome-class-" \o t.kind
         ELSE IF e.kind = "liberr" THEN (IF t.kind = "liberr" THEN "" ELSE "not-refused")
         ELSE IF t.kind = "liberr" THEN "refused-a-good-file"
         ELSE IF Len(t.rows) # Len(e.rows) THEN "row-count-differs"
         ELSE IF \E i \in 1..Len(e.rows) : RowSet(t.rows[i]) # e.rows[i] THEN "row-values-differ"
         ELSE ""
    ELSE LET recs == ReadAll(StreamOf(t.blk, t.file)).recs
             ok == \A i \in 1..Len(recs) : ReencodeOk(recs[i])
         IN  IF ~ok THEN ""          \* records that cannot be transcoded: outside the statement
             ELSE IF t.kind # "ok" THEN "conversion-raised"
             ELSE IF t.out \in WriterFiles(t.blkout, [i \in 1..Len(recs) |-> Reencode(recs[i])]) THEN ""
             ELSE "converted-file-differs"
TInit == tid = 1 /\ RegInit
TNext == /\ tid <= NTr
         /\ \E v \in {Verdict(Tr)} : IF v = "" THEN Accept ELSE Reject(Tr.tid, 1, v)
         /\ tid' = tid + 1
TSpec == TInit /\ [][TNext]_tid
=============================================================================
