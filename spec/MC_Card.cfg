CONSTANTS MaxLen = 4 MaskMax = 11 Mode = "luhn"
SPECIFICATION Spec
INVARIANT AppendValid
INVARIANT Detects
INVARIANT MaskInv
CHECK_DEADLOCK FALSE
