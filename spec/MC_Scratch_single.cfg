CONSTANTS Threads = {1}  Shared = TRUE
CONSTANT Items <- MCItems
SPECIFICATION Spec
INVARIANT Isolation
PROPERTY Finishes
CHECK_DEADLOCK FALSE
