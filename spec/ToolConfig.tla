----------------------------- MODULE ToolConfig -----------------------------
(* Which configuration a command-line tool uses (cardutil.cli.get_config) - outside the 20 listed properties, part of
   the growth of the specification (DESIGN 8.7).  Environment: a configuration file named on the command line (given /
   not given; exists / does not exist), the directory named by the environment variable (set / not set; holds the
   configuration file / does not).  Precedence: command-line file, then environment directory, then the packaged
   configuration.  Every environment is printed as <<"B", cliGiven, cliExists, envSet, envHasFile, source>> and
   replayed on the real function with real temporary files. *)
EXTENDS TLC
VARIABLES cliGiven, cliExists, envSet, envHasFile
Source == IF cliGiven /\ cliExists THEN "cli"
          ELSE IF envSet /\ envHasFile THEN "env"
          ELSE "pkg"
Init == /\ cliGiven \in BOOLEAN /\ cliExists \in BOOLEAN /\ envSet \in BOOLEAN /\ envHasFile \in BOOLEAN
        /\ PrintT(<<"B", cliGiven, cliExists, envSet, envHasFile, Source>>)
Next == FALSE /\ UNCHANGED <<cliGiven, cliExists, envSet, envHasFile>>
Spec == Init /\ [][Next]_<<cliGiven, cliExists, envSet, envHasFile>>
\* a file that is not there never wins; the packaged configuration is the fallback of last resort
Sane == /\ (Source = "cli" => cliGiven /\ cliExists)
        /\ (Source = "env" => envSet /\ envHasFile)
        /\ (Source = "pkg" => ~(cliGiven /\ cliExists) /\ ~(envSet /\ envHasFile))
=============================================================================
