-------------------------------- MODULE Pds --------------------------------
(***************************************************************************)
(* Mastercard PDS sub-elements inside carrier elements                     *)
(* (cardutil.iso8583._pds_to_de / _pds_to_dict).                           *)
(*   item    = tag (TagW characters) , length (LenW decimal digits), value *)
(*   carrier = items back to back, at most Cap characters                  *)
(* Pack is the greedy left-to-right packing of the items in ascending tag  *)
(* order; Walk is the tag/length/value reading of one carrier.             *)
(***************************************************************************)
EXTENDS Bytes
CONSTANTS Cap, TagW, LenW

HdrW == TagW + LenW
ItemText(it) == it.tag \o ZDigits(Len(it.val), LenW) \o it.val

LexLess(a, b) == \E i \in 1..Len(a) : a[i] < b[i] /\ \A j \in 1..(i - 1) : a[j] = b[j]
SortItems(items) == SortSeq(items, LAMBDA x, y : LexLess(x.tag, y.tag))

\* greedy packing; items must already be in ascending tag order
Pack(items) ==
    LET step(acc, it) ==
            LET add == ItemText(it)
            IN  IF Len(acc.cur) + Len(add) > Cap
                THEN [cur |-> add, outs |-> Append(acc.outs, acc.cur)]
                ELSE [cur |-> acc.cur \o add, outs |-> acc.outs]
        fin == FoldLeft(step, [cur |-> <<>>, outs |-> <<>>], items)
    IN  IF fin.cur = <<>> THEN fin.outs ELSE Append(fin.outs, fin.cur)

\* reading of one carrier: st \in {"strict", "lenient", "bad"}, items in reading order
\*   strict  : every header complete, every length LenW plain digits, every value inside the carrier
\*   lenient : an incomplete last header, a lenient non-negative numeral, or a value running past the end
\*             (don't-care for acceptance; the PDS entries are then not judged)
\*   bad     : a complete length field that is not a numeral, or is negative
RECURSIVE WalkFrom(_, _, _, _)
WalkFrom(text, p, st, acc) ==
    IF p > Len(text) THEN [st |-> st, items |-> acc]
    ELSE IF p + HdrW - 1 > Len(text) THEN [st |-> "lenient", items |-> acc]
    ELSE LET lenf == SubSeq(text, p + TagW, p + HdrW - 1)
             li == LenientInt(lenf)
         IN  IF ~li.ok \/ (li.neg /\ ~AllZero(li.ds)) THEN [st |-> "bad", items |-> acc]
             ELSE LET n == NumVal(li.ds)
                      inside == p + HdrW - 1 + n <= Len(text)
                      it == [tag |-> SubSeq(text, p, p + TagW - 1),
                             val |-> SubSeq(text, p + HdrW, Upto(p + HdrW - 1 + n, Len(text)))]
                  IN  IF ~inside THEN [st |-> "lenient", items |-> Append(acc, it)]
                      ELSE WalkFrom(text, p + HdrW + n, IF AllDigits(lenf) THEN st ELSE "lenient", Append(acc, it))
Walk(text) == WalkFrom(text, 1, "strict", <<>>)

\* ---- properties of the packing (checked by MC_Pds over bounded item sets)
FitsCap(packs) == \A i \in 1..Len(packs) : Len(packs[i]) <= Cap
NoSplit(items, packs) ==        \* the carriers are a partition of the item texts into consecutive runs
    Cat(packs) = Cat([i \in 1..Len(items) |-> ItemText(items[i])])
    /\ \A i \in 1..Len(packs) : Walk(packs[i]).st = "strict"
RoundTrip(items, packs) == Cat([i \in 1..Len(packs) |-> Walk(packs[i]).items]) = items
\* greedy: the first item of carrier j+1 did not fit into carrier j
Greedy(packs) == \A j \in 1..(Len(packs) - 1) :
    Len(packs[j]) + Len(ItemText(Walk(packs[j + 1]).items[1])) > Cap
=============================================================================
