----------------------------- MODULE Unblocker -----------------------------
(* Unblock1014 streaming reader. *)
EXTENDS Blocks

(***************************************************************************)
(* Unblocker: abstract (stream, pos) and implementation-shaped             *)
(* (buffer, fpos, a read in progress).                                     *)
(***************************************************************************)
VARIABLES ufile,    \* the blocked input (constant during a behaviour)
          pos,      \* abstract: payload cells delivered so far
          buffer,   \* impl: cells fetched from the file and not yet delivered
          fpos,     \* impl: cells of ufile consumed
          want,     \* impl: -1 no read in progress, 0 read-all in progress, n>0 read(n) in progress
          lastout,  \* the cells returned by the last completed read
          lastreq   \* the request that produced lastout (-1 none yet)
uvars == <<ufile, pos, buffer, fpos, want, lastout, lastreq>>

Stream == Payload(ufile)

UInit(f) == ufile = f /\ pos = 0 /\ buffer = <<>> /\ fpos = 0 /\ want = -1 /\ lastout = <<>> /\ lastreq = -1

\* what a read must return, from the abstract state alone
AbsRead(stream, p, n) == IF n = 0 THEN SubSeq(stream, p + 1, Len(stream))
                         ELSE SubSeq(stream, p + 1, Lo(p + n, Len(stream)))

UBegin(n) == want = -1 /\ want' = n /\ UNCHANGED <<ufile, pos, buffer, fpos, lastout, lastreq>>

\* `while read_all or len(buffer) <= n: block = read(1014); if not block: break; buffer += block[:1012]`
URefill ==
    /\ want >= 0
    /\ (want = 0 \/ Len(buffer) <= want)
    /\ fpos < Len(ufile)
    /\ LET hi == Lo(fpos + P + T, Len(ufile))
       IN  /\ buffer' = buffer \o SubSeq(ufile, fpos + 1, Lo(fpos + P, Len(ufile)))
           /\ fpos' = hi
    /\ UNCHANGED <<ufile, pos, want, lastout, lastreq>>

\* required behaviour of the last step: a read without a size hands over the whole buffer
UDeliver ==
    /\ want >= 0
    /\ ~((want = 0 \/ Len(buffer) <= want) /\ fpos < Len(ufile))
    /\ LET k == IF want = 0 THEN Len(buffer) ELSE Lo(want, Len(buffer))
       IN  /\ lastout' = SubSeq(buffer, 1, k)
           /\ buffer' = SubSeq(buffer, k + 1, Len(buffer))
           /\ pos' = pos + k
    /\ lastreq' = want
    /\ want' = -1
    /\ UNCHANGED <<ufile, fpos>>

\* ---- properties of the unblocker
\* buffer is exactly the undelivered part of the payload fetched so far
UBufInv == buffer = SubSeq(Payload(SubSeq(ufile, 1, fpos)), pos + 1, Len(Payload(SubSeq(ufile, 1, fpos))))
\* every completed read returned what the abstract machine prescribes
UReadProp == [][want' = -1 /\ want # -1 => lastout' = AbsRead(Stream, pos, want)]_uvars
UPosInv == pos <= Len(Stream)

=============================================================================
