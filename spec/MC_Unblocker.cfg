CONSTANTS P = 3  T = 2  PAD = 0  MaxBlocks = 3  MaxReads = 3  MaxSize = 7
SPECIFICATION FairSpec
INVARIANT UBufInv
INVARIANT UPosInv
PROPERTY MCReadProp
PROPERTY ReadTerminates
CHECK_DEADLOCK FALSE
