---------------------------- MODULE Blocks ------------------------------
(***************************************************************************)
(* 1014 blocking / unblocking (cardutil.mciipm.Block1014, Unblock1014,     *)
(* block_1014, unblock_1014).                                              *)
(*                                                                         *)
(* A blocked file is a sequence of (P+T)-cell blocks: P payload cells and  *)
(* T trailer cells equal to PAD.  Cells are opaque (bytes 0..255 in trace  *)
(* validation, position codes in model checking).                          *)
(*                                                                         *)
(* Layers (DESIGN R3):                                                     *)
(*   abstract      : what the properties talk about - the data written so  *)
(*                   far, Finals(data), the payload stream and a position   *)
(*   impl-shaped   : one action per branch of the code (WriteFits,         *)
(*                   WriteCompletes, Finalise; Refill, Deliver)            *)
(*   integer skel. : lengths only, used to enumerate every (residue, n)    *)
(*                   transition at P = 1012 (BlockInt section)             *)
(***************************************************************************)
EXTENDS Integers, Sequences, SequencesExt, FiniteSets, TLC

CONSTANTS P,      \* payload cells per block (1012)
          T,      \* trailer cells per block (2)
          PAD     \* fill / trailer cell (0x40)

CeilDiv(a, b) == (a + b - 1) \div b
Lo(a, b) == IF a < b THEN a ELSE b
Pads(n) == [i \in 1..n |-> PAD]
Idx(n) == [i \in 1..n |-> i]

(***************************************************************************)
(* One-shot functions                                                      *)
(***************************************************************************)
\* k blocks whose payloads are d followed by fill only
Blocks(d, k) ==
    LET pay == d \o Pads(k * P - Len(d))
    IN  TLCEval(FoldLeft(LAMBDA acc, j : acc \o SubSeq(pay, (j - 1) * P + 1, j * P) \o Pads(T), <<>>, Idx(k)))

MinBlocks(d) == CeilDiv(Len(d), P)

\* the admissible finalised files for data d: the optional trailing all-fill block is a don't-care
Finals(d) == { Blocks(d, k) : k \in { MinBlocks(d), MinBlocks(d) + 1 } }

\* payload stream of any byte string read as blocks: first <= P cells of each (P+T)-chunk
Payload(f) ==
    LET nb == CeilDiv(Len(f), P + T)
    IN  TLCEval(FoldLeft(LAMBDA acc, j : acc \o SubSeq(f, (j - 1) * (P + T) + 1, Lo((j - 1) * (P + T) + P, Len(f))),
                         <<>>, Idx(nb)))

WellBlocked(f) ==
    /\ Len(f) % (P + T) = 0
    /\ \A j \in 1..(Len(f) \div (P + T)) : \A t \in 1..T : f[(j - 1) * (P + T) + P + t] = PAD

\* what the validating one-shot unblocker must do with input f
UnblockOutcomes(f) == IF WellBlocked(f) THEN {[kind |-> "ok", bytes |-> Payload(f)]}
                      ELSE {[kind |-> "liberr", bytes |-> <<>>]}

\* the file d followed only by fill
IsDataThenFill(s, d) == /\ Len(s) >= Len(d)
                        /\ SubSeq(s, 1, Len(d)) = d
                        /\ \A i \in (Len(d) + 1)..Len(s) : s[i] = PAD

(***************************************************************************)
(* What one call of the streaming blocker emits to the wrapped file, as a  *)
(* pure function of its `remaining` counter r and the argument w           *)
(* (one clause per branch of Block1014.write).                             *)
(***************************************************************************)
EmitWrite(r, w) ==
    IF Len(w) < r THEN [out |-> w, rem |-> r - Len(w)]
    ELSE LET first == SubSeq(w, 1, r) \o Pads(T)
             rest  == SubSeq(w, r + 1, Len(w))
             full  == IF Len(rest) = 0 THEN 0 ELSE (Len(rest) - 1) \div P
             mid   == FoldLeft(LAMBDA acc, j : acc \o SubSeq(rest, (j - 1) * P + 1, j * P) \o Pads(T), <<>>, Idx(full))
             last  == SubSeq(rest, full * P + 1, Len(rest))
         IN  [out |-> TLCEval(first \o mid \o last), rem |-> P - Len(last)]
EmitFinal(r) == [out |-> Pads(r + T), rem |-> P]

(***************************************************************************)
(* Integer skeleton of the streaming blocker (implementation-shaped,      *)
(* lengths only): s = [d, rem, flen].                                      *)
(***************************************************************************)
IntWrite(s, n) ==
    IF n < s.rem THEN [d |-> s.d + n, rem |-> s.rem - n, flen |-> s.flen + n]
    ELSE LET rest == n - s.rem
             full == IF rest = 0 THEN 0 ELSE (rest - 1) \div P
             last == rest - full * P
         IN  [d |-> s.d + n, rem |-> P - last, flen |-> s.flen + n + (1 + full) * T]
IntFinal(s) == [d |-> s.d, rem |-> P, flen |-> s.flen + s.rem + T]
IntBlocks(s) == IntFinal(s).flen \div (P + T)
=============================================================================
