-------------------------- MODULE Trace_UnblockInd --------------------------
(* Binds the implementation-shaped unblocker model UnblockIntInd (whose inductive invariant Apalache discharges for all
   file lengths, request sizes and histories) to the real Unblock1014: after every real read(n) the harness records the
   position of the wrapped file, the length of the object's buffer and the length of what was returned; here every
   recorded call is replayed as  Call(n) ; Refill* ; Return  of the model and the three numbers must be the model's.
   trace = [tid, flen, events]; event = [n, fpos, buf, ret]  (n = 0: read without a size). *)
EXTENDS TraceBatch
VARIABLES flen, fpos, buf, given, pc, req, owed, ret, tid, l, bad
M == INSTANCE UnblockIntInd
tvars == <<flen, fpos, buf, given, pc, req, owed, ret, tid, l, bad>>
Tr == Traces[tid]
Ev == Tr.events[l]
Start(t) == /\ flen' = Traces[t].flen /\ fpos' = 0 /\ buf' = 0 /\ given' = 0 /\ pc' = "idle" /\ req' = 0 /\ owed' = 0 /\ ret' = 0
TInit == /\ tid = 1 /\ l = 1 /\ bad = FALSE /\ RegInit
         /\ flen = (IF NTr >= 1 THEN Traces[1].flen ELSE 0) /\ fpos = 0 /\ buf = 0 /\ given = 0 /\ pc = "idle" /\ req = 0
         /\ owed = 0 /\ ret = 0
EndOfTrace == /\ tid <= NTr /\ l > Len(Tr.events) /\ pc = "idle"
              /\ (IF bad THEN EndRejected ELSE Accept)
              /\ tid' = tid + 1 /\ l' = 1 /\ bad' = FALSE
              /\ IF tid + 1 <= NTr THEN Start(tid + 1)
                 ELSE UNCHANGED <<flen, fpos, buf, given, pc, req, owed, ret>>
TCall == /\ tid <= NTr /\ l <= Len(Tr.events) /\ pc = "idle"
         /\ req' = Ev.n /\ owed' = M!Pay(flen) - given /\ pc' = "fill"
         /\ UNCHANGED <<flen, fpos, buf, given, ret, tid, l, bad>>
TRefill == M!Refill /\ UNCHANGED <<tid, l, bad>>
TReturn == /\ tid <= NTr /\ M!Return
           /\ \E v \in {IF fpos # Ev.fpos THEN "wrapped-file-position-differs"
                        ELSE IF ret' # Ev.ret THEN "returned-length-differs"
                        ELSE IF buf' # Ev.buf THEN "buffer-length-differs" ELSE ""} :
                /\ (IF v # "" THEN RejectCont(Tr.tid, l, v) ELSE TRUE)
                /\ bad' = (bad \/ v # "")
           /\ l' = l + 1 /\ tid' = tid
TNext == EndOfTrace \/ TCall \/ TRefill \/ TReturn
TSpec == TInit /\ [][TNext]_tvars
\* the model's invariant holds along every replayed real execution as well
IndInvHolds == M!IndInv
=============================================================================
