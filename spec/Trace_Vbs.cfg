CONSTANTS P = 1012 T = 2 PAD = 64 MaxLen = 6000
SPECIFICATION TSpec
POSTCONDITION AllAccepted
CHECK_DEADLOCK FALSE
