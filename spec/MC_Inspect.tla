----------------------------- MODULE MC_Inspect -----------------------------
(* Design-level check of the blocking probe at scaled sizes: for writer-shaped blocked files of 1..MaxBlocks blocks
   the probe must say "blocked".  ProbeOld reproduces defect D13 (expected to be violated: finding reproducer);
   ProbeNew is the repaired rule. *)
EXTENDS Integers
CONSTANTS P, T, S, MaxBlocks
VARIABLE k
Init == k \in 1..MaxBlocks
Next == FALSE /\ k' = k
Spec == Init /\ [][Next]_k
FLen == k * (P + T)
Sample == IF FLen < S THEN FLen ELSE S
ProbeOld == Sample >= P + T /\ (Sample = P + T \/ Sample = 2 * (P + T))
ProbeNew == Sample >= P + T /\ (IF Sample < 2 * (P + T) THEN Sample = P + T ELSE TRUE)
=============================================================================
